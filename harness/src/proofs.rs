//! Registration of every harness: name [unwind] => body.
//! Naming: <property>_<what>; `_kf_` marks a witness harness of a recorded known finding
//! (expected to fail while the finding stands).

harnesses! { c09 ;
    c09_ii_plus [2] => b::c09_number::ii_plus;
    c09_ii_subtract [2] => b::c09_number::ii_subtract;
    c09_ii_multiply [2] => b::c09_number::ii_multiply;
    c09_ii_divide [2] => b::c09_number::ii_divide;
    c09_ii_integer_divide [2] => b::c09_number::ii_integer_divide;
    c09_ii_remainder_unit_conditions [2] => b::c09_number::ii_remainder_unit_conditions;
    c09_ii_remainder_small_divisor [2] => b::c09_number::ii_remainder_small_divisor;
    c09_ii_power_small_exponent [34] => b::c09_number::ii_power_small_exponent;
    c09_ii_power_small_base [34] => b::c09_number::ii_power_small_base;
    c09_ii_power_negative_exponent [34] => b::c09_number::ii_power_negative_exponent;
    c09_i_unary [2] => b::c09_number::i_unary;
    c09_ii_bitwise [34] => b::c09_number::ii_bitwise;
    c09_ii_shift_left [2] => b::c09_number::ii_shift_left;
    c09_ii_shift_right [2] => b::c09_number::ii_shift_right;
    c09_ff_plus [2] => b::c09_number::f_plus::<_, 0, 0, 0>;
    c09_ff_subtract [2] => b::c09_number::f_subtract::<_, 0, 0, 0>;
    c09_ff_multiply_m36 [2] => b::c09_number::f_multiply::<_, 0, 36, 36>;
    c09_ff_multiply_full [2] => b::c09_number::f_multiply::<_, 0, 0, 0>;
    c09_ff_divide_m36_pow2 [2] => b::c09_number::f_divide::<_, 0, 36, 52>;
    c09_ff_divide_m48 [2] => b::c09_number::f_divide::<_, 0, 48, 48>;
    c09_ff_divide_m44 [2] => b::c09_number::f_divide::<_, 0, 44, 44>;
    c09_ff_divide_m36_m48 [2] => b::c09_number::f_divide::<_, 0, 36, 48>;
    c09_ff_integer_divide_m36_pow2 [2] => b::c09_number::f_integer_divide::<_, 0, 36, 52>;
    c09_ff_integer_divide_m48 [2] => b::c09_number::f_integer_divide::<_, 0, 48, 48>;
    c09_ff_integer_divide_m44 [2] => b::c09_number::f_integer_divide::<_, 0, 44, 44>;
    c09_ff_integer_divide_m36_m48 [2] => b::c09_number::f_integer_divide::<_, 0, 36, 48>;
    c09_ff_integer_divide_kf_saturates [2] => b::c09_number::f_integer_divide_kf_saturates::<_, 0, 36, 52>;
    c09_ff_remainder [2] => b::c09_number::f_remainder::<_, 0, 0, 0>;
    c09_ff_power [2] => b::c09_number::f_power::<_, 0, 0, 0>;
    c09_ff_bitwise_is_unit [2] => b::c09_number::f_bitwise_is_unit::<_, 0, 0, 0>;
    c09_if_plus [2] => b::c09_number::f_plus::<_, 1, 0, 0>;
    c09_if_subtract [2] => b::c09_number::f_subtract::<_, 1, 0, 0>;
    c09_if_multiply_m36 [2] => b::c09_number::f_multiply::<_, 1, 36, 36>;
    c09_if_multiply_full [2] => b::c09_number::f_multiply::<_, 1, 0, 0>;
    c09_if_divide_m36_pow2 [2] => b::c09_number::f_divide::<_, 1, 36, 52>;
    c09_if_divide_m48 [2] => b::c09_number::f_divide::<_, 1, 48, 48>;
    c09_if_divide_m44 [2] => b::c09_number::f_divide::<_, 1, 44, 44>;
    c09_if_divide_m36_m48 [2] => b::c09_number::f_divide::<_, 1, 36, 48>;
    c09_if_integer_divide_m36_pow2 [2] => b::c09_number::f_integer_divide::<_, 1, 36, 52>;
    c09_if_integer_divide_m48 [2] => b::c09_number::f_integer_divide::<_, 1, 48, 48>;
    c09_if_integer_divide_m44 [2] => b::c09_number::f_integer_divide::<_, 1, 44, 44>;
    c09_if_integer_divide_m36_m48 [2] => b::c09_number::f_integer_divide::<_, 1, 36, 48>;
    c09_if_integer_divide_kf_saturates [2] => b::c09_number::f_integer_divide_kf_saturates::<_, 1, 36, 52>;
    c09_if_remainder [2] => b::c09_number::f_remainder::<_, 1, 0, 0>;
    c09_if_power [2] => b::c09_number::f_power::<_, 1, 0, 0>;
    c09_if_bitwise_is_unit [2] => b::c09_number::f_bitwise_is_unit::<_, 1, 0, 0>;
    c09_fi_plus [2] => b::c09_number::f_plus::<_, 2, 0, 0>;
    c09_fi_subtract [2] => b::c09_number::f_subtract::<_, 2, 0, 0>;
    c09_fi_multiply_m36 [2] => b::c09_number::f_multiply::<_, 2, 36, 36>;
    c09_fi_multiply_full [2] => b::c09_number::f_multiply::<_, 2, 0, 0>;
    c09_fi_divide_m36_pow2 [2] => b::c09_number::f_divide::<_, 2, 36, 52>;
    c09_fi_divide_m48 [2] => b::c09_number::f_divide::<_, 2, 48, 48>;
    c09_fi_divide_m44 [2] => b::c09_number::f_divide::<_, 2, 44, 44>;
    c09_fi_divide_m36_m48 [2] => b::c09_number::f_divide::<_, 2, 36, 48>;
    c09_fi_integer_divide_m36_pow2 [2] => b::c09_number::f_integer_divide::<_, 2, 36, 52>;
    c09_fi_integer_divide_m48 [2] => b::c09_number::f_integer_divide::<_, 2, 48, 48>;
    c09_fi_integer_divide_m44 [2] => b::c09_number::f_integer_divide::<_, 2, 44, 44>;
    c09_fi_integer_divide_m36_m48 [2] => b::c09_number::f_integer_divide::<_, 2, 36, 48>;
    c09_fi_integer_divide_kf_saturates [2] => b::c09_number::f_integer_divide_kf_saturates::<_, 2, 36, 52>;
    c09_fi_remainder [2] => b::c09_number::f_remainder::<_, 2, 0, 0>;
    c09_fi_power [2] => b::c09_number::f_power::<_, 2, 0, 0>;
    c09_fi_bitwise_is_unit [2] => b::c09_number::f_bitwise_is_unit::<_, 2, 0, 0>;
    c09_f_unary [2] => b::c09_number::f_unary;
}

#[cfg(not(kani))]
pub fn dispatch(name: &str, n: &mut crate::nondet::ReplayNondet) -> bool {
    c09::dispatch(name, n)
}

#[cfg(not(kani))]
pub fn all_names() -> Vec<&'static str> {
    let mut v = vec![];
    v.extend(c09::names());
    v
}
