//! Registration of every harness: name [unwind] => body.
//! Naming: <property>_<what>; `_kf_` marks a witness harness of a recorded known finding
//! (expected to fail while the finding stands).

harnesses! { c09 ;
    c09_ii_plus [2] => b::c09_number::ii_plus;
    c09_ii_subtract [2] => b::c09_number::ii_subtract;
    c09_ii_multiply [2] => b::c09_number::ii_multiply;
    c09_ii_divide [2] => b::c09_number::ii_divide;
    c09_ii_integer_divide [2] => b::c09_number::ii_integer_divide;
    c09_ii_remainder_unit_conditions [2] => b::c09_number::ii_remainder_unit_conditions;
    c09_ii_remainder_small_divisor [2] => b::c09_number::ii_remainder_small_divisor;
    c09_ii_power_small_exponent [34] => b::c09_number::ii_power_small_exponent;
    c09_ii_power_small_base [34] => b::c09_number::ii_power_small_base;
    c09_ii_power_negative_exponent [34] => b::c09_number::ii_power_negative_exponent;
    c09_i_unary [2] => b::c09_number::i_unary;
    c09_ii_bitwise [34] => b::c09_number::ii_bitwise;
    c09_ii_shift_left [2] => b::c09_number::ii_shift_left;
    c09_ii_shift_right [2] => b::c09_number::ii_shift_right;
    c09_ff_plus [2] => b::c09_number::f_plus::<_, 0, 0, 0>;
    c09_ff_subtract [2] => b::c09_number::f_subtract::<_, 0, 0, 0>;
    c09_ff_multiply_m36 [2] => b::c09_number::f_multiply::<_, 0, 36, 36>;
    c09_ff_multiply_full [2] => b::c09_number::f_multiply::<_, 0, 0, 0>;
    c09_ff_divide_m36_pow2 [2] => b::c09_number::f_divide::<_, 0, 36, 52>;
    c09_ff_divide_m48 [2] => b::c09_number::f_divide::<_, 0, 48, 48>;
    c09_ff_divide_m44 [2] => b::c09_number::f_divide::<_, 0, 44, 44>;
    c09_ff_divide_m36_m48 [2] => b::c09_number::f_divide::<_, 0, 36, 48>;
    c09_ff_integer_divide_m36_pow2 [2] => b::c09_number::f_integer_divide::<_, 0, 36, 52>;
    c09_ff_integer_divide_m48 [2] => b::c09_number::f_integer_divide::<_, 0, 48, 48>;
    c09_ff_integer_divide_m44 [2] => b::c09_number::f_integer_divide::<_, 0, 44, 44>;
    c09_ff_integer_divide_m36_m48 [2] => b::c09_number::f_integer_divide::<_, 0, 36, 48>;
    c09_ff_integer_divide_kf_saturates [2] => b::c09_number::f_integer_divide_kf_saturates::<_, 0, 36, 52>;
    c09_ff_remainder [2] => b::c09_number::f_remainder::<_, 0, 0, 0>;
    c09_ff_power [2] => b::c09_number::f_power::<_, 0, 0, 0>;
    c09_ff_bitwise_is_unit [2] => b::c09_number::f_bitwise_is_unit::<_, 0, 0, 0>;
    c09_if_plus [2] => b::c09_number::f_plus::<_, 1, 0, 0>;
    c09_if_subtract [2] => b::c09_number::f_subtract::<_, 1, 0, 0>;
    c09_if_multiply_m36 [2] => b::c09_number::f_multiply::<_, 1, 36, 36>;
    c09_if_multiply_full [2] => b::c09_number::f_multiply::<_, 1, 0, 0>;
    c09_if_divide_m36_pow2 [2] => b::c09_number::f_divide::<_, 1, 36, 52>;
    c09_if_divide_m48 [2] => b::c09_number::f_divide::<_, 1, 48, 48>;
    c09_if_divide_m44 [2] => b::c09_number::f_divide::<_, 1, 44, 44>;
    c09_if_divide_m36_m48 [2] => b::c09_number::f_divide::<_, 1, 36, 48>;
    c09_if_integer_divide_m36_pow2 [2] => b::c09_number::f_integer_divide::<_, 1, 36, 52>;
    c09_if_integer_divide_m48 [2] => b::c09_number::f_integer_divide::<_, 1, 48, 48>;
    c09_if_integer_divide_m44 [2] => b::c09_number::f_integer_divide::<_, 1, 44, 44>;
    c09_if_integer_divide_m36_m48 [2] => b::c09_number::f_integer_divide::<_, 1, 36, 48>;
    c09_if_integer_divide_kf_saturates [2] => b::c09_number::f_integer_divide_kf_saturates::<_, 1, 36, 52>;
    c09_if_remainder [2] => b::c09_number::f_remainder::<_, 1, 0, 0>;
    c09_if_power [2] => b::c09_number::f_power::<_, 1, 0, 0>;
    c09_if_bitwise_is_unit [2] => b::c09_number::f_bitwise_is_unit::<_, 1, 0, 0>;
    c09_fi_plus [2] => b::c09_number::f_plus::<_, 2, 0, 0>;
    c09_fi_subtract [2] => b::c09_number::f_subtract::<_, 2, 0, 0>;
    c09_fi_multiply_m36 [2] => b::c09_number::f_multiply::<_, 2, 36, 36>;
    c09_fi_multiply_full [2] => b::c09_number::f_multiply::<_, 2, 0, 0>;
    c09_fi_divide_m36_pow2 [2] => b::c09_number::f_divide::<_, 2, 36, 52>;
    c09_fi_divide_m48 [2] => b::c09_number::f_divide::<_, 2, 48, 48>;
    c09_fi_divide_m44 [2] => b::c09_number::f_divide::<_, 2, 44, 44>;
    c09_fi_divide_m36_m48 [2] => b::c09_number::f_divide::<_, 2, 36, 48>;
    c09_fi_integer_divide_m36_pow2 [2] => b::c09_number::f_integer_divide::<_, 2, 36, 52>;
    c09_fi_integer_divide_m48 [2] => b::c09_number::f_integer_divide::<_, 2, 48, 48>;
    c09_fi_integer_divide_m44 [2] => b::c09_number::f_integer_divide::<_, 2, 44, 44>;
    c09_fi_integer_divide_m36_m48 [2] => b::c09_number::f_integer_divide::<_, 2, 36, 48>;
    c09_fi_integer_divide_kf_saturates [2] => b::c09_number::f_integer_divide_kf_saturates::<_, 2, 36, 52>;
    c09_fi_remainder [2] => b::c09_number::f_remainder::<_, 2, 0, 0>;
    c09_fi_power [2] => b::c09_number::f_power::<_, 2, 0, 0>;
    c09_fi_bitwise_is_unit [2] => b::c09_number::f_bitwise_is_unit::<_, 2, 0, 0>;
    c09_f_unary [2] => b::c09_number::f_unary;
}

harnesses! { step ;
    c08_op_add [8] => b::step::binary_number_op::<_, 7>;
    c08_op_subtract [8] => b::step::binary_number_op::<_, 8>;
    c08_op_multiply [8] => b::step::binary_number_op::<_, 9>;
    c08_op_divide [8] => b::step::binary_number_op::<_, 10>;
    c08_op_integer_divide [8] => b::step::binary_number_op::<_, 11>;
    c08_op_power [8] => b::step::binary_number_op::<_, 12>;
    c08_op_remainder [8] => b::step::binary_number_op::<_, 15>;
    c08_op_bitwise_and [8] => b::step::binary_number_op::<_, 17>;
    c08_op_bitwise_or [8] => b::step::binary_number_op::<_, 18>;
    c08_op_bitwise_xor [8] => b::step::binary_number_op::<_, 19>;
    c08_op_bitwise_shift_left [8] => b::step::binary_number_op::<_, 20>;
    c08_op_bitwise_shift_right [8] => b::step::binary_number_op::<_, 21>;
    c08_op_opposite [8] => b::step::unary_number_op::<_, 13>;
    c08_op_absolute_value [8] => b::step::unary_number_op::<_, 14>;
    c08_op_bitwise_not [8] => b::step::unary_number_op::<_, 16>;
    step_put [8] => b::step::put;
    step_put_value [8] => b::step::value_ops::<_, 2>;
    step_push_value [8] => b::step::value_ops::<_, 3>;
    step_update_value [8] => b::step::value_ops::<_, 4>;
    step_start_side_effect [8] => b::step::value_ops::<_, 49>;
    step_end_side_effect [8] => b::step::value_ops::<_, 50>;
    step_jump_to [8] => b::step::jump_ops::<_, false>;
    step_reapply [8] => b::step::jump_ops::<_, true>;
    step_end_expression [8] => b::step::end_expression;
    step_make_pair [8] => b::step::make_two::<_, 38>;
    step_concat [8] => b::step::make_two::<_, 55>;
    step_partial_apply [8] => b::step::make_two::<_, 41>;
    step_type_of [8] => b::step::type_ops::<_, false>;
    step_type_equal [8] => b::step::type_ops::<_, true>;
    step_make_range [8] => b::step::make_range::<_, 51>;
    step_make_start_exclusive_range [8] => b::step::make_range::<_, 52>;
    step_make_end_exclusive_range [8] => b::step::make_range::<_, 53>;
    step_make_exclusive_range [8] => b::step::make_range::<_, 54>;
    c10_truth_jump_if_true [8] => b::step::truth_jump::<_, true>;
    c10_truth_jump_if_false [8] => b::step::truth_jump::<_, false>;
    c10_truth_and [8] => b::step::truth_and_or::<_, true>;
    c10_truth_or [8] => b::step::truth_and_or::<_, false>;
    c10_truth_not [8] => b::step::truth_unary::<_, true>;
    c10_truth_tis [8] => b::step::truth_unary::<_, false>;
    c10_truth_xor [8] => b::step::truth_xor;
}

#[cfg(not(kani))]
pub fn dispatch(name: &str, n: &mut crate::nondet::ReplayNondet) -> bool {
    c09::dispatch(name, n) || step::dispatch(name, n)
}

#[cfg(not(kani))]
pub fn all_names() -> Vec<&'static str> {
    let mut v = vec![];
    v.extend(c09::names());
    v.extend(step::names());
    v
}
