//! Stubs applied (under Kani only) to every harness that can reach them. They are part of each
//! claim and are listed in the evidence. Replays run without them.
//!
//! * `alloc::fmt::format` -> empty string: all error messages in garnish-core are `format!`; no
//!   property is about message text.
//! * `std::backtrace::Backtrace::capture` -> disabled backtrace: `DataError::new` captures one.

pub fn format_stub(_args: std::fmt::Arguments<'_>) -> String {
    String::new()
}

pub fn backtrace_stub() -> std::backtrace::Backtrace {
    std::backtrace::Backtrace::disabled()
}

/// `f64::powf` -> its IEEE-754 contract, as a nondeterministic environment function (Kani only).
/// For finite base and finite exponent: NaN exactly when the base is negative and the exponent is
/// not an integer; otherwise some non-NaN value (possibly infinite — which inputs overflow is left
/// open, an over-approximation). Replaces CBMC's approximate `pow` model, whose own internal
/// division check fails spuriously. The nondeterministic draw happens after all of a body's draws
/// (bodies draw their inputs up front), so counterexample bytes keep their order in native replay.
#[cfg(kani)]
pub fn powf_stub(a: f64, b: f64) -> f64 {
    let r: f64 = kani::any();
    if a.is_finite() && b.is_finite() {
        let nan_case = a < 0.0 && b != b.trunc();
        kani::assume(r.is_nan() == nan_case);
    }
    r
}

/// `std::hash::RandomState::new` -> fixed keys (Kani only): the real one asks the OS for randomness (a
/// foreign function). Reached only where a SimpleGarnishData (several HashMaps) is constructed; no harness
/// depends on hash values.
#[cfg(kani)]
pub fn random_state_stub() -> std::hash::RandomState {
    unsafe { std::mem::transmute::<[u64; 2], std::hash::RandomState>([0x0123456789abcdef, 0x0fedcba987654321]) }
}
