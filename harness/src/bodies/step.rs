//! One-step harnesses on BoundedData: a symbolic pre-state (`any_state`), one instruction executed
//! through the real `execute_current_instruction`, assertions on the post-state.
//! Shared by C06 (arity), C07 (no panic), C08 (defer protocol), C09 (None -> unit), C10 (truth).

use crate::bounded::*;
use crate::nondet::Nondet;
use crate::state::*;
use garnish_lang_runtime::{SimpleRuntimeState, execute_current_instruction};
use garnish_lang_simple_data::SimpleNumber;
use garnish_lang_traits::{GarnishData, GarnishDataType, GarnishNumber, Instruction};

/// cell capacity of the one-step harnesses
pub const SC: usize = 16;
pub type SD = BoundedData<SC>;

pub struct Step {
    pub d: SD,
    pub sentinel: usize,
    pub cells_before: usize,
    pub regs_before: usize,
    pub values_before: usize,
    pub frames_before: usize,
}

/// narrow integer domain for harnesses whose oracle recomputes the arithmetic: -4..=4, MIN, MAX, 31, 32
pub fn narrow(v: i32) -> bool {
    (v >= -4 && v <= 4) || v == i32::MIN || v == i32::MAX || v == 31 || v == 32
}

pub fn assume_narrow_numbers<N: Nondet>(n: &mut N, d: &SD) {
    let mut i = 0;
    while i < d.n_cells {
        if d.cells[i].tag == GarnishDataType::Number {
            match d.cells[i].num {
                SimpleNumber::Integer(v) => n.assume(narrow(v)),
                SimpleNumber::Float(_) => {}
            }
        }
        i += 1;
    }
}

/// set up: state of `k` symbolic cells, a sentinel register below the operands, `operands` symbolic
/// operand addresses pushed in order (left first), the instruction under test at cursor 0 followed
/// by an EndExpression so that the step reports Running.
pub fn setup<N: Nondet>(n: &mut N, k: usize, floats: bool, max_len: usize, operands: usize, instr: Instruction, idata: Option<usize>, host_calls: usize) -> (Step, [usize; 3]) {
    let mut d: SD = any_state(n, k, floats, max_len);
    script_host(n, &mut d, host_calls);
    // operand addresses are concrete (the last cells; every cell is arbitrary anyway), except that a
    // binary instruction may receive the same value twice
    let mut ops = [0usize; 3];
    let mut i = 0;
    while i < operands {
        ops[i] = k - operands + i;
        i += 1;
    }
    if operands == 2 && n.bool() {
        ops[0] = ops[1];
    }
    let sentinel = d.add_unit().unwrap();
    d.push_register(sentinel).unwrap();
    let mut i = 0;
    while i < operands {
        d.push_register(ops[i]).unwrap();
        i += 1;
    }
    d.push_instruction(instr, idata).unwrap();
    d.push_instruction(Instruction::EndExpression, None).unwrap();
    let s = Step { sentinel, cells_before: d.n_cells, regs_before: d.n_regs, values_before: d.n_values, frames_before: d.n_frames, d };
    (s, ops)
}

pub fn kernel2(i: Instruction, a: SimpleNumber, b: SimpleNumber) -> Option<SimpleNumber> {
    match i {
        Instruction::Add => a.plus(b),
        Instruction::Subtract => a.subtract(b),
        Instruction::Multiply => a.multiply(b),
        Instruction::Divide => a.divide(b),
        Instruction::IntegerDivide => a.integer_divide(b),
        Instruction::Power => a.power(b),
        Instruction::Remainder => a.remainder(b),
        Instruction::BitwiseAnd => a.bitwise_and(b),
        Instruction::BitwiseOr => a.bitwise_or(b),
        Instruction::BitwiseXor => a.bitwise_xor(b),
        Instruction::BitwiseShiftLeft => a.bitwise_shift_left(b),
        Instruction::BitwiseShiftRight => a.bitwise_shift_right(b),
        _ => panic!("not a binary number instruction"),
    }
}

pub fn kernel1(i: Instruction, a: SimpleNumber) -> Option<SimpleNumber> {
    match i {
        Instruction::Opposite => a.opposite(),
        Instruction::AbsoluteValue => a.absolute_value(),
        Instruction::BitwiseNot => a.bitwise_not(),
        _ => panic!("not a unary number instruction"),
    }
}

fn num_eq(a: SimpleNumber, b: SimpleNumber) -> bool {
    match (a, b) {
        (SimpleNumber::Integer(x), SimpleNumber::Integer(y)) => x == y,
        (SimpleNumber::Float(x), SimpleNumber::Float(y)) => x == y || (x.is_nan() && y.is_nan()),
        _ => false,
    }
}

/// assertions common to every "one result replaces the operands" instruction
pub fn assert_one_result(s: &Step, res_running: bool, operands: usize) {
    pa!("C08", res_running);
    assert!(!s.d.overflowed);
    pa!("C06", s.d.cursor == 1);
    pa!("C06", s.d.n_regs == s.regs_before - operands + 1);
    pa!("C06", s.d.regs[0] == s.sentinel);
    pa!("C06", s.d.n_values == s.values_before);
    pa!("C06", s.d.n_frames == s.frames_before);
}

pub fn ran_ok(r: Result<garnish_lang_runtime::SimpleRuntimeInfo, garnish_lang_traits::RuntimeError<BErr>>) -> bool {
    match r {
        Ok(info) => info.get_state() == SimpleRuntimeState::Running,
        Err(_) => false,
    }
}

/// protocol of a deferred operation: exactly one defer_op call with the instruction and both operands
/// in source order; declined -> unit; accepted -> the host's value, untouched, on top
pub fn assert_deferred(s: &Step, instr: Instruction, left: (GarnishDataType, usize), right: (GarnishDataType, usize)) {
    let d = &s.d;
    pa!("C08", d.n_calls == 1);
    let c = d.calls[0];
    pa!("C08", c.kind == HostKind::DeferOp);
    pa!("C08", c.op == instr);
    pa!("C08", c.left.0 == left.0 && c.left.1 == left.1);
    pa!("C08", c.right.0 == right.0 && c.right.1 == right.1);
    let t = top(d);
    if c.accepted {
        pa!("C08", t >= s.cells_before);
        pa!("C08", d.cells[t].tag == GarnishDataType::Number);
        pa!("C08", num_eq(d.cells[t].num, SimpleNumber::Integer(d.host_vals[0])));
    } else {
        pa!("C08", d.cells[t].tag == GarnishDataType::Unit);
    }
}

// ------------------------------------------------------------------ arithmetic / bitwise family

/// C08 + C09(runtime) + C06: binary number instructions, both operands with symbolic tags (20 x 20)
pub fn binary_number_op<N: Nondet, const I: usize>(n: &mut N) {
    let instr = ALL_INSTRUCTIONS[I];
    let (mut s, ops) = setup(n, 2, false, 2, 2, instr, None, 1);
    assume_narrow_numbers(n, &s.d);
    let (l, r) = (ops[0], ops[1]);
    let (lt, rt) = (s.d.cells[l].tag, s.d.cells[r].tag);
    let res = execute_current_instruction(&mut s.d);
    gv_cover!(lt == GarnishDataType::Number && rt == GarnishDataType::Number, "number x number");
    gv_cover!(lt != GarnishDataType::Number, "left not a number");
    gv_cover!(rt != GarnishDataType::Number && s.d.n_calls == 1 && s.d.calls[0].accepted, "host accepted");
    assert_one_result(&s, ran_ok(res), 2);
    if lt == GarnishDataType::Number && rt == GarnishDataType::Number {
        pa!("C08", s.d.n_calls == 0);
        let t = top(&s.d);
        match kernel2(instr, s.d.cells[l].num, s.d.cells[r].num) {
            Some(v) => {
                pa!("C09", s.d.cells[t].tag == GarnishDataType::Number);
                pa!("C09", num_eq(s.d.cells[t].num, v));
            }
            None => assert!(s.d.cells[t].tag == GarnishDataType::Unit),
        }
    } else {
        assert_deferred(&s, instr, (lt, l), (rt, r));
    }
}

/// unary number instructions (Opposite, AbsoluteValue, BitwiseNot)
pub fn unary_number_op<N: Nondet, const I: usize>(n: &mut N) {
    let instr = ALL_INSTRUCTIONS[I];
    let (mut s, ops) = setup(n, 2, false, 2, 1, instr, None, 1);
    let a = ops[0];
    let at = s.d.cells[a].tag;
    let res = execute_current_instruction(&mut s.d);
    gv_cover!(at == GarnishDataType::Number, "number");
    gv_cover!(at != GarnishDataType::Number && s.d.n_calls == 1 && s.d.calls[0].accepted, "host accepted");
    assert_one_result(&s, ran_ok(res), 1);
    if at == GarnishDataType::Number {
        pa!("C08", s.d.n_calls == 0);
        let t = top(&s.d);
        match kernel1(instr, s.d.cells[a].num) {
            Some(v) => {
                pa!("C09", s.d.cells[t].tag == GarnishDataType::Number);
                pa!("C09", num_eq(s.d.cells[t].num, v));
            }
            None => assert!(s.d.cells[t].tag == GarnishDataType::Unit),
        }
    } else {
        assert_deferred(&s, instr, (at, a), (GarnishDataType::Unit, 0));
    }
}

// ------------------------------------------------------------------ truth (C10)

fn bool_tag(b: bool) -> GarnishDataType {
    if b { GarnishDataType::True } else { GarnishDataType::False }
}

/// JumpIfTrue / JumpIfFalse on a value of every type
pub fn truth_jump<N: Nondet, const IF_TRUE: bool>(n: &mut N) {
    let instr = if IF_TRUE { Instruction::JumpIfTrue } else { Instruction::JumpIfFalse };
    let (mut s, ops) = setup(n, 3, false, 2, 1, instr, Some(0), 0);
    // jump target: instruction 1 is the fall-through, give the table another valid target
    s.d.push_instruction(Instruction::EndExpression, None).unwrap();
    s.d.push_to_jump_table(2).unwrap();
    let t = s.d.cells[ops[0]].tag;
    let res = execute_current_instruction(&mut s.d);
    gv_cover!(is_false_tag(t), "false value");
    gv_cover!(!is_false_tag(t), "true value");
    pa!("C10", ran_ok(res));
    let jumps = if IF_TRUE { !is_false_tag(t) } else { is_false_tag(t) };
    let want_cursor = if jumps { 2 } else { 1 };
    pa!("C10", s.d.cursor == want_cursor);
    pa!("C10", s.d.n_regs == s.regs_before - 1);
    pa!("C10", s.d.regs[0] == s.sentinel);
    pa!("C10", s.d.n_calls == 0);
}

/// And / Or: decided -> boolean pushed, fall through; undecided -> jump to the right operand's code
pub fn truth_and_or<N: Nondet, const IS_AND: bool>(n: &mut N) {
    let instr = if IS_AND { Instruction::And } else { Instruction::Or };
    let (mut s, ops) = setup(n, 3, false, 2, 1, instr, Some(0), 0);
    s.d.push_instruction(Instruction::EndExpression, None).unwrap();
    s.d.push_to_jump_table(2).unwrap();
    let t = s.d.cells[ops[0]].tag;
    let truthy = !is_false_tag(t);
    let res = execute_current_instruction(&mut s.d);
    gv_cover!(truthy, "true value");
    gv_cover!(!truthy, "false value");
    pa!("C10", ran_ok(res));
    let decided = if IS_AND { !truthy } else { truthy };
    if decided {
        pa!("C10", s.d.cursor == 1);
        pa!("C10", s.d.n_regs == s.regs_before);
        pa!("C10", s.d.cells[top(&s.d)].tag == bool_tag(!IS_AND));
    } else {
        pa!("C10", s.d.cursor == 2);
        pa!("C10", s.d.n_regs == s.regs_before - 1);
    }
    pa!("C10", s.d.regs[0] == s.sentinel);
}

/// Not / Tis
pub fn truth_unary<N: Nondet, const IS_NOT: bool>(n: &mut N) {
    let instr = if IS_NOT { Instruction::Not } else { Instruction::Tis };
    let (mut s, ops) = setup(n, 3, false, 2, 1, instr, None, 0);
    let t = s.d.cells[ops[0]].tag;
    let truthy = !is_false_tag(t);
    let res = execute_current_instruction(&mut s.d);
    gv_cover!(truthy, "true value");
    gv_cover!(!truthy, "false value");
    assert_one_result(&s, ran_ok(res), 1);
    let want = bool_tag(if IS_NOT { !truthy } else { truthy });
    pa!("C10", s.d.cells[top(&s.d)].tag == want);
    pa!("C10", s.d.n_calls == 0);
}

/// Xor on two values of every type
pub fn truth_xor<N: Nondet>(n: &mut N) {
    let (mut s, ops) = setup(n, 3, false, 2, 2, Instruction::Xor, None, 0);
    let (lt, rt) = (s.d.cells[ops[0]].tag, s.d.cells[ops[1]].tag);
    let res = execute_current_instruction(&mut s.d);
    gv_cover!(is_false_tag(lt) && !is_false_tag(rt), "false ^^ true");
    gv_cover!(!is_false_tag(lt) && !is_false_tag(rt), "true ^^ true");
    assert_one_result(&s, ran_ok(res), 2);
    pa!("C10", s.d.cells[top(&s.d)].tag == bool_tag(is_false_tag(lt) != is_false_tag(rt)));
    pa!("C10", s.d.n_calls == 0);
}

// ------------------------------------------------------------------ stack / value / jump instructions

/// Put(i): pushes i when it names existing data, otherwise an Err (never a panic)
pub fn put<N: Nondet>(n: &mut N) {
    let i = n.usize();
    let (mut s, _) = setup(n, 2, false, 1, 0, Instruction::Put, Some(i), 0);
    let res = execute_current_instruction(&mut s.d);
    gv_cover!(i < s.cells_before, "valid operand");
    gv_cover!(i >= s.cells_before, "dangling operand");
    if i < s.cells_before {
        pa!("C06", ran_ok(res));
        pa!("C06", s.d.n_regs == s.regs_before + 1 && top(&s.d) == i);
        pa!("C06", s.d.cursor == 1);
    } else {
        pa!("C06", res.is_err());
    }
    pa!("C06", s.d.regs[0] == s.sentinel && s.d.n_values == s.values_before && s.d.n_frames == s.frames_before);
}

/// PutValue / PushValue / UpdateValue / StartSideEffect / EndSideEffect with a symbolic value stack depth 0..2
pub fn value_ops<N: Nondet, const I: usize>(n: &mut N) {
    let instr = ALL_INSTRUCTIONS[I];
    let pops = match instr {
        Instruction::PushValue | Instruction::UpdateValue | Instruction::EndSideEffect => 1,
        _ => 0,
    };
    let (mut s, ops) = setup(n, 2, false, 1, pops, instr, None, 0);
    let depth = n.usize_below(3);
    let v0 = n.usize_below(2);
    let v1 = n.usize_below(2);
    if depth > 0 {
        s.d.push_value_stack(v0).unwrap();
    }
    if depth > 1 {
        s.d.push_value_stack(v1).unwrap();
    }
    s.values_before = s.d.n_values;
    let cur_before = s.d.get_current_value();
    let res = execute_current_instruction(&mut s.d);
    gv_cover!(depth == 0, "empty value stack");
    gv_cover!(depth == 2, "two values");
    pa!("C06", s.d.regs[0] == s.sentinel && s.d.n_frames == s.frames_before);
    match instr {
        Instruction::PutValue => {
            pa!("C06", ran_ok(res));
            pa!("C06", s.d.n_regs == s.regs_before + 1 && s.d.n_values == s.values_before);
            match cur_before {
                Some(v) => pa!("C06", top(&s.d) == v),
                None => pa!("C06", s.d.cells[top(&s.d)].tag == GarnishDataType::Unit),
            }
        }
        Instruction::PushValue => {
            pa!("C06", ran_ok(res));
            pa!("C06", s.d.n_regs == s.regs_before - 1 && s.d.n_values == s.values_before + 1);
            pa!("C06", s.d.get_current_value() == Some(ops[0]));
        }
        Instruction::UpdateValue => {
            if depth == 0 {
                pa!("C06", res.is_err());
            } else {
                pa!("C06", ran_ok(res));
                pa!("C06", s.d.n_regs == s.regs_before - 1 && s.d.n_values == s.values_before);
                pa!("C06", s.d.get_current_value() == Some(ops[0]));
            }
        }
        Instruction::StartSideEffect => {
            pa!("C06", ran_ok(res));
            pa!("C06", s.d.n_regs == s.regs_before && s.d.n_values == s.values_before + 1);
            match cur_before {
                Some(v) => pa!("C06", s.d.get_current_value() == Some(v)),
                None => pa!("C06", s.d.cells[s.d.get_current_value().unwrap()].tag == GarnishDataType::Unit),
            }
        }
        Instruction::EndSideEffect => {
            if depth == 0 {
                pa!("C06", res.is_err());
            } else {
                pa!("C06", ran_ok(res));
                pa!("C06", s.d.n_regs == s.regs_before - 1 && s.d.n_values == s.values_before - 1);
            }
        }
        _ => panic!("not a value instruction"),
    }
}

/// JumpTo(i) and Reapply(i) with a symbolic jump-table index
pub fn jump_ops<N: Nondet, const REAPPLY: bool>(n: &mut N) {
    let instr = if REAPPLY { Instruction::Reapply } else { Instruction::JumpTo };
    let idx = n.usize_below(3);
    let (mut s, ops) = setup(n, 2, false, 1, if REAPPLY { 1 } else { 0 }, instr, Some(idx), 0);
    s.d.push_instruction(Instruction::EndExpression, None).unwrap();
    s.d.push_to_jump_table(2).unwrap();
    s.d.push_to_jump_table(1).unwrap();
    let have_value = n.bool();
    if have_value {
        s.d.push_value_stack(0).unwrap();
    }
    s.values_before = s.d.n_values;
    let res = execute_current_instruction(&mut s.d);
    gv_cover!(idx == 2, "no such jump entry");
    gv_cover!(idx == 0, "jump");
    pa!("C06", s.d.regs[0] == s.sentinel && s.d.n_frames == s.frames_before);
    if idx >= 2 || (REAPPLY && !have_value) {
        pa!("C06", res.is_err());
    } else {
        pa!("C06", ran_ok(res));
        let want_cursor = if idx == 0 { 2 } else { 1 };
        pa!("C06", s.d.cursor == want_cursor);
        pa!("C06", s.d.n_values == s.values_before);
        if REAPPLY {
            pa!("C06", s.d.n_regs == s.regs_before - 1);
            pa!("C06", s.d.get_current_value() == Some(ops[0]));
        } else {
            pa!("C06", s.d.n_regs == s.regs_before);
        }
    }
}

/// EndExpression with and without a pending frame
pub fn end_expression<N: Nondet>(n: &mut N) {
    let (mut s, ops) = setup(n, 2, false, 1, 1, Instruction::EndExpression, None, 0);
    s.d.push_instruction(Instruction::EndExpression, None).unwrap();
    let have_frame = n.bool();
    let values = n.usize_below(3);
    if values > 0 {
        s.d.push_value_stack(0).unwrap();
    }
    if values > 1 {
        s.d.push_value_stack(1).unwrap();
    }
    if have_frame {
        s.d.push_frame(2).unwrap();
    }
    s.values_before = s.d.n_values;
    s.frames_before = s.d.n_frames;
    let res = execute_current_instruction(&mut s.d);
    gv_cover!(have_frame, "returning to a caller");
    gv_cover!(!have_frame && values > 0, "end of program");
    pa!("C06", s.d.regs[0] == s.sentinel);
    if have_frame {
        if values == 0 {
            // nothing to pop: tolerated (pop_value_stack returns None), result still handed back
            pa!("C06", ran_ok(res));
        } else {
            pa!("C06", ran_ok(res));
            pa!("C06", s.d.n_values == s.values_before - 1);
        }
        pa!("C06", s.d.cursor == 2);
        pa!("C06", s.d.n_frames == s.frames_before - 1);
        pa!("C06", s.d.n_regs == s.regs_before && top(&s.d) == ops[0]);
    } else if values == 0 {
        pa!("C06", res.is_err());
    } else {
        match res {
            Ok(info) => pa!("C06", info.get_state() == SimpleRuntimeState::End),
            Err(_) => pa!("C06", false),
        }
        pa!("C06", s.d.n_regs == s.regs_before - 1);
        pa!("C06", s.d.n_values == s.values_before && s.d.get_current_value() == Some(ops[0]));
    }
}

// ------------------------------------------------------------------ constructors and type instructions

/// MakePair / Concat / PartialApply: a fresh cell of the right kind linking (left, right) in source order
pub fn make_two<N: Nondet, const I: usize>(n: &mut N) {
    let instr = ALL_INSTRUCTIONS[I];
    let (mut s, ops) = setup(n, 3, false, 1, 2, instr, None, 0);
    let (l, r) = (ops[0], ops[1]);
    let res = execute_current_instruction(&mut s.d);
    gv_cover!(l != r, "distinct operands");
    assert_one_result(&s, ran_ok(res), 2);
    pa!("C08", s.d.n_calls == 0);
    let t = top(&s.d);
    let c = s.d.cells[t];
    let want = match instr {
        Instruction::MakePair => GarnishDataType::Pair,
        Instruction::Concat => GarnishDataType::Concatenation,
        _ => GarnishDataType::Partial,
    };
    pa!("C01", c.tag == want && t >= s.cells_before);
    // MakePair receives its operands in the opposite order (the builder emits right first)
    if instr == Instruction::MakePair {
        pa!("C01", c.a == r && c.b == l);
    } else {
        pa!("C01", c.a == l && c.b == r);
    }
}

/// TypeOf and TypeEqual on values of every type
pub fn type_ops<N: Nondet, const EQUAL: bool>(n: &mut N) {
    let instr = if EQUAL { Instruction::TypeEqual } else { Instruction::TypeOf };
    let (mut s, ops) = setup(n, 3, false, 1, if EQUAL { 2 } else { 1 }, instr, None, 0);
    let lt = s.d.cells[ops[0]].tag;
    let res = execute_current_instruction(&mut s.d);
    assert_one_result(&s, ran_ok(res), if EQUAL { 2 } else { 1 });
    pa!("C08", s.d.n_calls == 0);
    let c = s.d.cells[top(&s.d)];
    // (covers sit outside the `if EQUAL` branches: inside the branch of the other instantiation they would be dead
    // code and reported UNREACHABLE)
    gv_cover!(lt == GarnishDataType::Type, "left operand is itself a type value");
    let rc = s.d.cells[ops[if EQUAL { 1 } else { 0 }]];
    let rt = if rc.tag == GarnishDataType::Type { rc.ty } else { rc.tag };
    gv_cover!(!EQUAL || (rc.tag == GarnishDataType::Type && lt == rt), "compared with a type value, equal");
    gv_cover!(!EQUAL || lt != rt, "different");
    if EQUAL {
        let want = bool_tag(lt == rt);
        pa!("C01", c.tag == want);
    } else {
        pa!("C01", c.tag == GarnishDataType::Type && c.ty == lt);
    }
}

/// The four range constructors: numbers -> Range with the documented end-point adjustment; anything
/// else is undefined: offered to the host once, unit when declined (C08)
pub fn make_range<N: Nondet, const I: usize>(n: &mut N) {
    let instr = ALL_INSTRUCTIONS[I];
    let (start_excl, end_excl) = match instr {
        Instruction::MakeRange => (false, false),
        Instruction::MakeStartExclusiveRange => (true, false),
        Instruction::MakeEndExclusiveRange => (false, true),
        _ => (true, true),
    };
    let (mut s, ops) = setup(n, 3, false, 1, 2, instr, None, 1);
    let (l, r) = (ops[0], ops[1]);
    let (lc, rc) = (s.d.cells[l], s.d.cells[r]);
    let res = execute_current_instruction(&mut s.d);
    let both = lc.tag == GarnishDataType::Number && rc.tag == GarnishDataType::Number;
    gv_cover!(both, "number .. number");
    gv_cover!(!both, "undefined operands");
    if both {
        // an end point that cannot be adjusted (MAX + 1) is an Err, not a panic and not a wrapped value
        let lnum = if start_excl { lc.num.increment() } else { Some(lc.num) };
        let rnum = if end_excl { Some(rc.num) } else { rc.num.increment() };
        match (lnum, rnum) {
            (Some(a), Some(b)) => {
                assert_one_result(&s, ran_ok(res), 2);
                let c = s.d.cells[top(&s.d)];
                pa!("C01", c.tag == GarnishDataType::Range);
                pa!("C01", s.d.cells[c.a].tag == GarnishDataType::Number && num_eq(s.d.cells[c.a].num, a));
                pa!("C01", s.d.cells[c.b].tag == GarnishDataType::Number && num_eq(s.d.cells[c.b].num, b));
            }
            _ => pa!("C06", res.is_err()),
        }
        pa!("C08", s.d.n_calls == 0);
    } else {
        assert_one_result(&s, ran_ok(res), 2);
        assert_deferred(&s, instr, (lc.tag, l), (rc.tag, r));
    }
}
