//! C09 — number arithmetic is exact or unit, never wrapped.
//!
//! Code under test: `garnish_lang_simple_data::SimpleNumber`'s `GarnishNumber` impl (`do_op`,
//! `power`, `integer_divide`, unary ops, bitwise ops). Oracles are written here with wider
//! arithmetic (i64 / i128) or primitive f64 operations; none is derived from number.rs.

use crate::nondet::Nondet;
use garnish_lang_simple_data::SimpleNumber;
use garnish_lang_simple_data::SimpleNumber::{Float, Integer};
use garnish_lang_traits::GarnishNumber;

fn fits(v: i64) -> bool {
    v >= i32::MIN as i64 && v <= i32::MAX as i64
}

/// structural comparison that distinguishes Integer from Float and treats floats bitwise-by-value
fn same(a: Option<SimpleNumber>, b: Option<SimpleNumber>) -> bool {
    match (a, b) {
        (None, None) => true,
        (Some(Integer(x)), Some(Integer(y))) => x == y,
        (Some(Float(x)), Some(Float(y))) => x == y || (x.is_nan() && y.is_nan()),
        _ => false,
    }
}

fn int_result(v: i64) -> Option<SimpleNumber> {
    if fits(v) { Some(Integer(v as i32)) } else { None }
}

fn float_result(v: f64) -> Option<SimpleNumber> {
    if v.is_finite() { Some(Float(v)) } else { None }
}

// ---------------------------------------------------------------- int x int, full width

pub fn ii_plus<N: Nondet>(n: &mut N) {
    let (a, b) = (n.i32(), n.i32());
    let r = Integer(a).plus(Integer(b));
    gv_cover!(r.is_none(), "overflow branch");
    gv_cover!(r.is_some(), "exact branch");
    assert!(same(r, int_result(a as i64 + b as i64)));
}

pub fn ii_subtract<N: Nondet>(n: &mut N) {
    let (a, b) = (n.i32(), n.i32());
    let r = Integer(a).subtract(Integer(b));
    gv_cover!(r.is_none(), "overflow branch");
    gv_cover!(r.is_some(), "exact branch");
    assert!(same(r, int_result(a as i64 - b as i64)));
}

pub fn ii_multiply<N: Nondet>(n: &mut N) {
    let (a, b) = (n.i32(), n.i32());
    let r = Integer(a).multiply(Integer(b));
    gv_cover!(r.is_none(), "overflow branch");
    gv_cover!(r.is_some(), "exact branch");
    assert!(same(r, int_result(a as i64 * b as i64)));
}

/// truncating quotient via the division relation (no `/` in the oracle: q*b + r == a, |r| < |b|,
/// r == 0 or sign(r) == sign(a))
fn is_trunc_quotient(a: i32, b: i32, q: i32) -> bool {
    let (a, b, q) = (a as i64, b as i64, q as i64);
    let r = a - q * b;
    let abs_r = if r < 0 { -r } else { r };
    let abs_b = if b < 0 { -b } else { b };
    abs_r < abs_b && (r == 0 || (r < 0) == (a < 0))
}

fn check_div(a: i32, b: i32, r: Option<SimpleNumber>) {
    if b == 0 || (a == i32::MIN && b == -1) {
        assert!(r.is_none());
    } else {
        match r {
            Some(Integer(q)) => assert!(is_trunc_quotient(a, b, q)),
            _ => panic!("integer division did not yield an integer"),
        }
    }
}

pub fn ii_divide<N: Nondet>(n: &mut N) {
    let (a, b) = (n.i32(), n.i32());
    let r = Integer(a).divide(Integer(b));
    gv_cover!(r.is_none(), "unit branch");
    gv_cover!(r.is_some(), "exact branch");
    check_div(a, b, r);
}

pub fn ii_integer_divide<N: Nondet>(n: &mut N) {
    let (a, b) = (n.i32(), n.i32());
    let r = Integer(a).integer_divide(Integer(b));
    gv_cover!(r.is_none(), "unit branch");
    gv_cover!(r.is_some(), "exact branch");
    check_div(a, b, r);
}

/// Kani part of `remainder`: the unit conditions at full width. The value (a - trunc(a/b)*b) at
/// full width is decided by the SMT engine (smt/), since CBMC does not finish that query.
pub fn ii_remainder_unit_conditions<N: Nondet>(n: &mut N) {
    let (a, b) = (n.i32(), n.i32());
    let r = Integer(a).remainder(Integer(b));
    let unit = b == 0 || (a == i32::MIN && b == -1);
    gv_cover!(unit, "unit branch");
    gv_cover!(!unit, "value branch");
    assert!(r.is_none() == unit);
    match r {
        None => {}
        Some(Integer(_)) => {}
        Some(Float(_)) => panic!("integer remainder yielded a float"),
    }
}

/// `remainder` value with the divisor bounded (|b| <= 64), dividend full width: inside Kani's reach
pub fn ii_remainder_small_divisor<N: Nondet>(n: &mut N) {
    let (a, b) = (n.i32(), n.i32());
    n.assume(b >= -64 && b <= 64);
    let r = Integer(a).remainder(Integer(b));
    if b == 0 || (a == i32::MIN && b == -1) {
        assert!(r.is_none());
    } else {
        match r {
            Some(Integer(m)) => {
                // a = q*b + m with |m| < |b| and sign(m) = sign(a) or m = 0; q recovered exactly
                let (a6, b6, m6) = (a as i64, b as i64, m as i64);
                let abs_m = if m6 < 0 { -m6 } else { m6 };
                let abs_b = if b6 < 0 { -b6 } else { b6 };
                assert!(abs_m < abs_b);
                assert!(m6 == 0 || (m6 < 0) == (a6 < 0));
                assert!((a6 - m6) % b6 == 0);
            }
            _ => panic!("integer remainder did not yield an integer"),
        }
    }
}

fn pow_i128(base: i32, exp: u32) -> i128 {
    // exact for exp <= 3 (|base|^3 < 2^93)
    let b = base as i128;
    match exp {
        0 => 1,
        1 => b,
        2 => b * b,
        _ => b * b * b,
    }
}

/// exponent 0..=3, base full width
pub fn ii_power_small_exponent<N: Nondet>(n: &mut N) {
    let (a, e) = (n.i32(), n.i32());
    n.assume(e >= 0 && e <= 3);
    let r = Integer(a).power(Integer(e));
    let exact = pow_i128(a, e as u32);
    let expected = if exact >= i32::MIN as i128 && exact <= i32::MAX as i128 { Some(Integer(exact as i32)) } else { None };
    gv_cover!(r.is_none(), "overflow branch");
    gv_cover!(r.is_some(), "exact branch");
    assert!(same(r, expected));
}

/// exponent 4..=31, |base| <= 8; oracle: saturating repeated multiplication in i64
pub fn ii_power_small_base<N: Nondet>(n: &mut N) {
    let (a, e) = (n.i32(), n.i32());
    n.assume(a >= -8 && a <= 8);
    n.assume(e >= 4 && e <= 31);
    let r = Integer(a).power(Integer(e));
    // |a| <= 8 -> |a^e| <= 2^93: saturate as soon as the magnitude leaves i32
    let mut acc: i64 = 1;
    let mut overflow = false;
    let mut i = 0;
    while i < 31 {
        if i < e {
            acc *= a as i64;
            if !fits(acc) {
                overflow = true;
                acc = 0; // keeps |acc| small; once out of range, a^e stays out of range unless a in {0, 1, -1}, which never leaves it
            }
        }
        i += 1;
    }
    let expected = if overflow { None } else { Some(Integer(acc as i32)) };
    gv_cover!(r.is_none(), "overflow branch");
    gv_cover!(r.is_some(), "exact branch");
    assert!(same(r, expected));
}

/// negative exponent -> unit, all bases
pub fn ii_power_negative_exponent<N: Nondet>(n: &mut N) {
    let (a, e) = (n.i32(), n.i32());
    n.assume(e < 0);
    gv_cover!(true, "reached");
    assert!(Integer(a).power(Integer(e)).is_none());
}

pub fn i_unary<N: Nondet>(n: &mut N) {
    let a = n.i32();
    gv_cover!(a == i32::MIN, "MIN");
    gv_cover!(a == i32::MAX, "MAX");
    assert!(same(Integer(a).absolute_value(), int_result(if a < 0 { -(a as i64) } else { a as i64 })));
    assert!(same(Integer(a).opposite(), int_result(-(a as i64))));
    assert!(same(Integer(a).increment(), int_result(a as i64 + 1)));
    assert!(same(Integer(a).decrement(), int_result(a as i64 - 1)));
    assert!(same(Integer(a).bitwise_not(), Some(Integer(-1 - a))));
}

pub fn ii_bitwise<N: Nondet>(n: &mut N) {
    let (a, b) = (n.i32(), n.i32());
    gv_cover!(true, "reached");
    // oracles through De Morgan / arithmetic identities rather than the same operator
    let and = Integer(a).bitwise_and(Integer(b));
    let or = Integer(a).bitwise_or(Integer(b));
    let xor = Integer(a).bitwise_xor(Integer(b));
    match (and, or, xor) {
        (Some(Integer(x)), Some(Integer(o)), Some(Integer(e))) => {
            // bit-by-bit truth tables
            let mut i = 0;
            while i < 32 {
                let (ba, bb) = ((a >> i) & 1, (b >> i) & 1);
                assert!(((x >> i) & 1) == if ba == 1 && bb == 1 { 1 } else { 0 });
                assert!(((o >> i) & 1) == if ba == 1 || bb == 1 { 1 } else { 0 });
                assert!(((e >> i) & 1) == if ba != bb { 1 } else { 0 });
                i += 1;
            }
        }
        _ => panic!("bitwise op on integers did not yield an integer"),
    }
}

fn shl_ref(a: i32, c: i32) -> Option<SimpleNumber> {
    if c < 0 || c > 31 {
        None
    } else {
        // bit pattern of a * 2^c truncated to 32 bits
        let wide = ((a as i64) << c) as u64 & 0xFFFF_FFFF;
        Some(Integer(wide as u32 as i32))
    }
}

fn shr_ref(a: i32, c: i32) -> Option<SimpleNumber> {
    if c < 0 || c > 31 {
        None
    } else {
        // arithmetic shift = floor(a / 2^c)
        let d = 1i64 << c;
        let a6 = a as i64;
        let q = if a6 >= 0 { a6 / d } else { -((-a6 + d - 1) / d) };
        Some(Integer(q as i32))
    }
}

pub fn ii_shift_left<N: Nondet>(n: &mut N) {
    let (a, c) = (n.i32(), n.i32());
    gv_cover!(c < 0, "negative count");
    gv_cover!(c > 31, "count above 31");
    gv_cover!(c >= 0 && c <= 31, "count in range");
    let r = Integer(a).bitwise_shift_left(Integer(c));
    assert!(same(r, shl_ref(a, c)));
}

pub fn ii_shift_right<N: Nondet>(n: &mut N) {
    let (a, c) = (n.i32(), n.i32());
    gv_cover!(c < 0, "negative count");
    gv_cover!(c > 31, "count above 31");
    gv_cover!(c >= 0 && c <= 31, "count in range");
    let r = Integer(a).bitwise_shift_right(Integer(c));
    assert!(same(r, shr_ref(a, c)));
}

// ---------------------------------------------------------------- float and mixed

/// a finite f64 whose low `m` mantissa bits are zero (m = 0: every finite f64; m = 52: +-2^k, +-0 and
/// the subnormal powers of two). Sign and all finite exponents (subnormals, zeros) stay symbolic.
/// `m` is the stated operand bound of a float harness.
fn float_in<N: Nondet>(n: &mut N, m: u8) -> f64 {
    let v = n.finite_f64();
    if m > 0 {
        n.assume(v.to_bits() & ((1u64 << m) - 1) == 0);
    }
    v
}

/// an i32 with at most k = 52 - m significant bits (m = 0 or k >= 31: every i32; m = 52: 0 and +-2^j)
fn int_in<N: Nondet>(n: &mut N, m: u8) -> i32 {
    let v = n.i32();
    if m == 52 {
        let mag = (v as i64).abs();
        n.assume(mag & (mag - 1) == 0);
    } else if m > 21 {
        let k = 52 - m as u32; // 1..=30
        let lim = 1i64 << k;
        let low = (1i64 << (31 - k)) - 1;
        n.assume(((v as i64) > -lim && (v as i64) < lim) || ((v as i64) & low) == 0);
    }
    v
}

fn pick<N: Nondet>(n: &mut N, which: u8, ma: u8, mb: u8) -> (SimpleNumber, SimpleNumber, f64, f64) {
    // which: 0 = float/float, 1 = int/float, 2 = float/int; returns operands and their f64 promotions
    match which {
        0 => {
            let (a, b) = (float_in(n, ma), float_in(n, mb));
            (Float(a), Float(b), a, b)
        }
        1 => {
            let (a, b) = (int_in(n, ma), float_in(n, mb));
            (Integer(a), Float(b), a as f64, b)
        }
        _ => {
            let (a, b) = (float_in(n, ma), int_in(n, mb));
            (Float(a), Integer(b), a, b as f64)
        }
    }
}

pub fn f_plus<N: Nondet, const W: u8, const MA: u8, const MB: u8>(n: &mut N) {
    let (l, r, a, b) = pick(n, W, MA, MB);
    let out = l.plus(r);
    gv_cover!(W != 0 || out.is_none(), "non-finite branch (float/float only: i32 + f64 cannot overflow)");
    gv_cover!(out.is_some(), "finite branch");
    assert!(same(out, float_result(a + b)));
}

pub fn f_subtract<N: Nondet, const W: u8, const MA: u8, const MB: u8>(n: &mut N) {
    let (l, r, a, b) = pick(n, W, MA, MB);
    let out = l.subtract(r);
    gv_cover!(W != 0 || out.is_none(), "non-finite branch (float/float only: i32 + f64 cannot overflow)");
    gv_cover!(out.is_some(), "finite branch");
    assert!(same(out, float_result(a - b)));
}

pub fn f_multiply<N: Nondet, const W: u8, const MA: u8, const MB: u8>(n: &mut N) {
    let (l, r, a, b) = pick(n, W, MA, MB);
    let out = l.multiply(r);
    gv_cover!(out.is_none(), "non-finite branch");
    gv_cover!(out.is_some(), "finite branch");
    assert!(same(out, float_result(a * b)));
}

pub fn f_divide<N: Nondet, const W: u8, const MA: u8, const MB: u8>(n: &mut N) {
    let (l, r, a, b) = pick(n, W, MA, MB);
    let out = l.divide(r);
    gv_cover!(b == 0.0, "zero divisor");
    gv_cover!(out.is_some(), "finite branch");
    if b == 0.0 {
        assert!(out.is_none());
    } else {
        assert!(same(out, float_result(a / b)));
    }
}

/// float remainder: unit on a zero divisor, otherwise a finite float (or unit), never NaN/inf.
/// Exactness against libm's fmod is outside the claim.
pub fn f_remainder<N: Nondet, const W: u8, const MA: u8, const MB: u8>(n: &mut N) {
    let (l, r, _a, b) = pick(n, W, MA, MB);
    let out = l.remainder(r);
    gv_cover!(b == 0.0, "zero divisor");
    gv_cover!(out.is_some(), "finite branch");
    if b == 0.0 {
        assert!(out.is_none());
    } else {
        match out {
            None => {}
            Some(Float(v)) => assert!(v.is_finite()),
            Some(Integer(_)) => panic!("float remainder yielded an integer"),
        }
    }
}

/// float power: negative exponent -> unit; otherwise a finite float or unit, never NaN/inf.
/// Decided through CBMC's approximate `pow` model; every counterexample is replayed natively.
pub fn f_power<N: Nondet, const W: u8, const MA: u8, const MB: u8>(n: &mut N) {
    let (l, r, _a, b) = pick(n, W, MA, MB);
    let out = l.power(r);
    gv_cover!(b < 0.0, "negative exponent");
    gv_cover!(out.is_some(), "finite branch");
    if b < 0.0 {
        assert!(out.is_none());
    } else {
        match out {
            None => {}
            Some(Float(v)) => assert!(v.is_finite()),
            Some(Integer(_)) => panic!("float power yielded an integer"),
        }
    }
}

/// K_F for the recorded finding "float integer_divide saturates": the truncated quotient does not fit i32
fn quotient_outside_i32(a: f64, b: f64) -> bool {
    let q = a / b;
    !(q > -2147483649.0 && q < 2147483648.0)
}

fn check_float_integer_divide(out: Option<SimpleNumber>, a: f64, b: f64) {
    if b == 0.0 {
        assert!(out.is_none());
        return;
    }
    let q = a / b;
    if quotient_outside_i32(a, b) {
        assert!(out.is_none());
    } else {
        match out {
            Some(Integer(v)) => {
                // truncation toward zero: |v| <= |q| < |v| + 1 and same sign (or v == 0)
                let vf = v as f64;
                if q >= 0.0 {
                    assert!(vf <= q && q < vf + 1.0);
                } else {
                    assert!(vf >= q && q > vf - 1.0);
                }
            }
            _ => panic!("float integer division did not yield an integer"),
        }
    }
}

/// main harness: everything except the recorded finding's input class
pub fn f_integer_divide<N: Nondet, const W: u8, const MA: u8, const MB: u8>(n: &mut N) {
    let (l, r, a, b) = pick(n, W, MA, MB);
    n.assume(b == 0.0 || !quotient_outside_i32(a, b));
    let out = l.integer_divide(r);
    gv_cover!(b == 0.0, "zero divisor");
    gv_cover!(out.is_some(), "value branch");
    check_float_integer_divide(out, a, b);
}

/// witness harness for the recorded finding (expected to FAIL while the finding stands)
pub fn f_integer_divide_kf_saturates<N: Nondet, const W: u8, const MA: u8, const MB: u8>(n: &mut N) {
    let (l, r, a, b) = pick(n, W, MA, MB);
    n.assume(b != 0.0 && quotient_outside_i32(a, b));
    let out = l.integer_divide(r);
    check_float_integer_divide(out, a, b);
}

pub fn f_unary<N: Nondet>(n: &mut N) {
    let a = n.finite_f64();
    gv_cover!(a < 0.0, "negative");
    gv_cover!(a == f64::MAX, "MAX");
    assert!(same(Float(a).absolute_value(), float_result(if a < 0.0 { -a } else if a == 0.0 { 0.0 } else { a })));
    assert!(same(Float(a).opposite(), float_result(-a)));
    assert!(same(Float(a).increment(), float_result(a + 1.0)));
    assert!(same(Float(a).decrement(), float_result(a - 1.0)));
    assert!(Float(a).bitwise_not().is_none());
}

pub fn f_bitwise_is_unit<N: Nondet, const W: u8, const MA: u8, const MB: u8>(n: &mut N) {
    let (l, r, _, _) = pick(n, W, MA, MB);
    gv_cover!(true, "reached");
    assert!(l.bitwise_and(r).is_none());
    assert!(l.bitwise_or(r).is_none());
    assert!(l.bitwise_xor(r).is_none());
    assert!(l.bitwise_shift_left(r).is_none());
    assert!(l.bitwise_shift_right(r).is_none());
}

