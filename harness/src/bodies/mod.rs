pub mod c09_number;
pub mod dispatch;
pub mod prog;
pub mod relations;
pub mod step;
pub mod store;
