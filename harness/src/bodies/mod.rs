pub mod c09_number;
pub mod dispatch;
pub mod step;
