pub mod c09_number;
