pub mod c09_number;
pub mod step;
