//! Protocol harnesses for the instructions that dispatch on operand types and traverse their
//! operands: Access, Apply, EmptyApply, ApplyType, AccessLeft/Right/LengthInternal.
//! Left operand: concrete tag per harness (shape class), symbolic contents; right operand: symbolic
//! tag. Asserts C08's protocol against the golden DEFINED tables below, C06's arity, and (through
//! Kani's own checks) C07's absence of panics.

use crate::bodies::step::*;
use crate::bounded::*;
use crate::nondet::Nondet;
use crate::state::*;
use garnish_lang_runtime::execute_current_instruction;
use garnish_lang_simple_data::SimpleNumber;
use garnish_lang_traits::{GarnishData, GarnishDataType as T, Instruction};

pub const SCALARS: [T; 11] = [T::Unit, T::Number, T::Type, T::Char, T::Byte, T::Symbol, T::Expression, T::External, T::True, T::False, T::Custom];

/// LT value meaning "left operand is a scalar of symbolic tag"
pub const LT_SCALAR: usize = 20;

fn is_one_of(t: T, set: &[T]) -> bool {
    let mut i = 0;
    while i < set.len() {
        if set[i] == t {
            return true;
        }
        i += 1;
    }
    false
}

// ---------------------------------------------------------------- golden DEFINED tables
// Which operand type combinations the language defines (every other combination must be offered to
// the host exactly once). Written from the documented dispatch of the pinned tree; a changed arm in
// /repo makes the real code disagree with these.

pub fn access_defined(l: T, r: T) -> bool {
    let merge = (l == T::Symbol || l == T::SymbolList || l == T::Number) && (r == T::Symbol || r == T::SymbolList || r == T::Number) && !(l == T::Number && r == T::Number);
    // numeric index into every indexable value; symbol lookup only where associations can exist
    let index = is_one_of(l, &[T::Pair, T::List, T::CharList, T::ByteList, T::Range, T::Concatenation, T::Slice]) && r == T::Number;
    let lookup = is_one_of(l, &[T::Pair, T::List, T::Concatenation, T::Slice]) && r == T::Symbol;
    merge || index || lookup
}

pub fn apply_defined(l: T, r: T) -> bool {
    if l == T::Expression || l == T::External || l == T::Partial {
        return true;
    }
    match (l, r) {
        (T::Symbol, T::SymbolList) | (T::SymbolList, T::Symbol) | (T::SymbolList, T::SymbolList) => true,
        (T::Range, T::Range) | (T::Slice, T::Range) => true,
        (T::SymbolList, T::Number) | (T::List, T::Number) | (T::Pair, T::Number) | (T::Pair, T::Symbol) | (T::List, T::Symbol) | (T::List, T::SymbolList) => true,
        (T::List, T::Range) | (T::Concatenation, T::Range) | (T::CharList, T::Range) | (T::ByteList, T::Range) | (T::SymbolList, T::Range) => true,
        _ => false,
    }
}

/// l = type of the value, r = target type
pub fn cast_defined(l: T, r: T) -> bool {
    if l == r {
        return true;
    }
    if r == T::CharList || r == T::ByteList || r == T::Symbol || r == T::True || r == T::False {
        return true;
    }
    if l == T::Unit {
        return true;
    }
    match (l, r) {
        (T::CharList, T::Number) | (T::Number, T::Char) | (T::Number, T::Byte) | (T::Char, T::Number) | (T::Char, T::Byte) | (T::Byte, T::Number) | (T::Byte, T::Char) | (T::CharList, T::Char) => true,
        (T::SymbolList, T::List) | (T::Range, T::List) | (T::CharList, T::List) | (T::ByteList, T::List) | (T::Concatenation, T::List) | (T::Slice, T::List) => true,
        _ => false,
    }
}

pub fn internal_defined(i: Instruction, l: T) -> bool {
    match i {
        Instruction::AccessLengthInternal => is_one_of(l, &[T::Pair, T::List, T::CharList, T::ByteList, T::Range, T::Slice, T::Concatenation]),
        _ => is_one_of(l, &[T::Pair, T::Range, T::Slice, T::Concatenation]),
    }
}

// ---------------------------------------------------------------- fixture

pub fn push_scalar<N: Nondet>(n: &mut N, d: &mut SD) -> usize {
    let tag = SCALARS[n.below(11) as usize];
    let c = Cell { tag, a: n.usize(), b: 0, num: SimpleNumber::Integer(n.i32()), sym: n.u64(), ty: any_tag(n) };
    let i = d.n_cells;
    d.cells[i] = c;
    d.n_cells = i + 1;
    let ok = cell_valid(d, i, 0);
    n.assume(ok);
    i
}

/// base cells (two scalars of symbolic tag, a pair over them), then the left operand of tag `lt`
/// (LT_SCALAR: one more scalar), then one more cell of fully symbolic tag; returns (data, left)
pub fn fixture<N: Nondet>(n: &mut N, lt: usize) -> (SD, usize) {
    fixture_impl(n, lt, LT_SCALAR, LT_SCALAR)
}

/// a scalar cell of the CONCRETE tag `tag` with symbolic payload
pub fn push_scalar_of<N: Nondet>(n: &mut N, d: &mut SD, tag: T) -> usize {
    let c = Cell { tag, a: n.usize(), b: 0, num: SimpleNumber::Integer(n.i32()), sym: n.u64(), ty: any_tag(n) };
    let i = d.n_cells;
    d.cells[i] = c;
    d.n_cells = i + 1;
    let ok = cell_valid(d, i, 0);
    n.assume(ok);
    i
}

/// like `fixture`, with the two base cells of the concrete types TAGS[leaf0], TAGS[leaf1] (LT_SCALAR = symbolic)
pub fn fixture_leaves<N: Nondet>(n: &mut N, lt: usize, leaf0: usize, leaf1: usize) -> (SD, usize) {
    fixture_impl(n, lt, leaf0, leaf1)
}

fn fixture_impl<N: Nondet>(n: &mut N, lt: usize, leaf0: usize, leaf1: usize) -> (SD, usize) {
    let mut d: SD = BoundedData::new();
    // symbolic pools (list-like values of the fixture live here)
    let mut j = 0;
    while j < P_ITEMS {
        d.items[j] = n.usize_below(3);
        j += 1;
    }
    d.n_items = P_ITEMS;
    let mut j = 0;
    while j < P_CHARS {
        d.chars[j] = any_char(n);
        j += 1;
    }
    d.n_chars = P_CHARS;
    let mut j = 0;
    while j < P_BYTES {
        d.bytes[j] = n.u8();
        j += 1;
    }
    d.n_bytes = P_BYTES;
    let mut j = 0;
    while j < P_SYMPARTS {
        d.symparts[j] = SymPart { is_sym: n.bool(), sym: n.u64(), num: SimpleNumber::Integer(n.i32()) };
        j += 1;
    }
    d.n_symparts = P_SYMPARTS;
    d.n_jumps = JUMPS;
    d.jumps = [1; JUMPS];

    if leaf0 < 20 {
        push_scalar_of(n, &mut d, TAGS[leaf0]);
    } else {
        push_scalar(n, &mut d);
    }
    if leaf1 < 20 {
        push_scalar_of(n, &mut d, TAGS[leaf1]);
    } else {
        push_scalar(n, &mut d);
    }
    let mut p = Cell::of(T::Pair);
    p.a = n.usize_below(2);
    p.b = n.usize_below(2);
    d.push_cell(p).unwrap();

    let left = if lt == LT_SCALAR {
        push_scalar(n, &mut d)
    } else {
        let tag = TAGS[lt];
        if tag == T::Slice {
            // sliced value (list or char list), an integer range, the slice
            let mut v = Cell::of(if n.bool() { T::List } else { T::CharList });
            v.a = n.usize_below(P_ITEMS - 1);
            v.b = n.usize_below(3);
            d.push_cell(v).unwrap();
            let mut a = Cell::of(T::Number);
            a.num = SimpleNumber::Integer(n.i32());
            let ai = d.push_cell(a).unwrap();
            let mut b = Cell::of(T::Number);
            b.num = SimpleNumber::Integer(n.i32());
            let bi = d.push_cell(b).unwrap();
            let mut r = Cell::of(T::Range);
            r.a = ai;
            r.b = bi;
            d.push_cell(r).unwrap();
        }
        if tag == T::Range {
            let mut a = Cell::of(T::Number);
            a.num = SimpleNumber::Integer(n.i32());
            d.push_cell(a).unwrap();
            let mut b = Cell::of(T::Number);
            b.num = SimpleNumber::Integer(n.i32());
            d.push_cell(b).unwrap();
        }
        let i = d.n_cells;
        let c = Cell { tag, a: n.usize(), b: n.usize(), num: SimpleNumber::Integer(n.i32()), sym: n.u64(), ty: any_tag(n) };
        d.cells[i] = c;
        d.n_cells = i + 1;
        let ok = cell_valid(&d, i, 2);
        n.assume(ok);
        if tag == T::Range {
            // start and end are the two fresh numbers, in either address order
            n.assume((d.cells[i].a == i - 2 && d.cells[i].b == i - 1) || (d.cells[i].a == i - 1 && d.cells[i].b == i - 2));
        }
        i
    };
    (d, left)
}

/// one more cell of fully symbolic tag (the right operand's candidates are all cells)
pub fn push_any<N: Nondet>(n: &mut N, d: &mut SD) -> usize {
    let i = d.n_cells;
    let c = Cell { tag: any_tag(n), a: n.usize(), b: n.usize(), num: SimpleNumber::Integer(n.i32()), sym: n.u64(), ty: any_tag(n) };
    d.cells[i] = c;
    d.n_cells = i + 1;
    let ok = cell_valid(d, i, 2);
    n.assume(ok);
    i
}

fn finish_setup<N: Nondet>(n: &mut N, mut d: SD, operands: &[usize], instr: Instruction) -> Step {
    script_host(n, &mut d, 1);
    let sentinel = d.add_unit().unwrap();
    d.push_register(sentinel).unwrap();
    let mut i = 0;
    while i < operands.len() {
        d.push_register(operands[i]).unwrap();
        i += 1;
    }
    d.push_instruction(instr, None).unwrap();
    d.push_instruction(Instruction::EndExpression, None).unwrap();
    d.push_instruction(Instruction::EndExpression, None).unwrap();
    d.push_value_stack(sentinel).unwrap();
    Step { sentinel, cells_before: d.n_cells, regs_before: d.n_regs, values_before: d.n_values, frames_before: d.n_frames, d }
}

/// Binary dispatching instructions: Access, Apply, ApplyType
pub fn binary_dispatch<N: Nondet, const I: usize, const LT: usize>(n: &mut N) {
    let instr = ALL_INSTRUCTIONS[I];
    let (mut d, left) = fixture(n, LT);
    // right operand: a cell of fully symbolic tag, or the left operand itself
    let any = push_any(n, &mut d);
    let right = if n.bool() { left } else { any };
    let (lt, rc) = (d.cells[left].tag, d.cells[right]);
    let rt = rc.tag;
    let mut s = finish_setup(n, d, &[left, right], instr);
    let res = execute_current_instruction(&mut s.d);

    let defined = match instr {
        Instruction::Access => access_defined(lt, rt),
        Instruction::Apply => apply_defined(lt, rt),
        _ => cast_defined(lt, if rt == T::Type { rc.ty } else { rt }),
    };
    gv_cover!(true, "reached");

    // Ranges and slices: end-point arithmetic that overflows is reported as an Err("Number error") by the
    // runtime; whether that should be unit is not settled by the property text (it is about undefined
    // type combinations), so the Ok-claim excludes operands that are ranges or slices.
    let rangeish = lt == T::Range || lt == T::Slice || rt == T::Range || rt == T::Slice;
    if rangeish && res.is_err() {
        return;
    }
    pa!("C08", res.is_ok());
    assert!(!s.d.overflowed);
    let starts_call = instr == Instruction::Apply && (lt == T::Expression || (lt == T::Partial && s.d.cells[s.d.cells[left].a].tag == T::Expression));
    if starts_call {
        // entering an expression body: operands consumed, input value and return frame pushed
        pa!("C06", s.d.n_regs == s.regs_before - 2);
        pa!("C06", s.d.n_values == s.values_before + 1);
        pa!("C06", s.d.n_frames == s.frames_before + 1);
        pa!("C06", s.d.frames[s.d.n_frames - 1] == 1);
        pa!("C08", s.d.n_calls == 0);
    } else {
        pa!("C06", s.d.n_regs == s.regs_before - 1);
        pa!("C06", s.d.regs[0] == s.sentinel);
        pa!("C06", s.d.n_values == s.values_before && s.d.n_frames == s.frames_before);
        pa!("C06", s.d.cursor == 1);
        if lt == T::External && instr == Instruction::Apply {
            // C17: the host's apply is called exactly once with the external's number and the argument
            pa!("C17", s.d.n_calls == 1);
            let c = s.d.calls[0];
            pa!("C17", c.kind == HostKind::Apply && c.left.1 == s.d.cells[left].a && c.right.1 == right);
            let t = top(&s.d);
            if c.accepted {
                pa!("C17", t >= s.cells_before && s.d.cells[t].tag == T::Number);
            } else {
                pa!("C17", s.d.cells[t].tag == T::Unit);
            }
        } else if defined {
            pa!("C08", s.d.n_calls == 0);
        } else if instr == Instruction::ApplyType && rt == T::Type {
            // a type value on the right is reported to the host as the type it denotes
            assert_deferred(&s, instr, (lt, left), (rc.ty, right));
        } else {
            assert_deferred(&s, instr, (lt, left), (rt, right));
        }
    }
}

/// Unary dispatching instructions: EmptyApply and the three internal accessors
pub fn unary_dispatch<N: Nondet, const I: usize, const LT: usize>(n: &mut N) {
    let instr = ALL_INSTRUCTIONS[I];
    let (d, left) = fixture(n, LT);
    let lt = d.cells[left].tag;
    let mut s = finish_setup(n, d, &[left], instr);
    let res = execute_current_instruction(&mut s.d);
    let defined = if instr == Instruction::EmptyApply { lt == T::Expression || lt == T::External || lt == T::Partial } else { internal_defined(instr, lt) };
    gv_cover!(true, "reached");
    let rangeish = lt == T::Range || lt == T::Slice;
    if rangeish && res.is_err() {
        return;
    }
    pa!("C08", res.is_ok());
    assert!(!s.d.overflowed);
    let starts_call = instr == Instruction::EmptyApply && (lt == T::Expression || (lt == T::Partial && s.d.cells[s.d.cells[left].a].tag == T::Expression));
    if starts_call {
        pa!("C06", s.d.n_regs == s.regs_before - 1);
        pa!("C06", s.d.n_values == s.values_before + 1);
        pa!("C06", s.d.n_frames == s.frames_before + 1);
    } else {
        pa!("C06", s.d.n_regs == s.regs_before);
        pa!("C06", s.d.regs[0] == s.sentinel);
        pa!("C06", s.d.n_values == s.values_before && s.d.n_frames == s.frames_before);
        pa!("C06", s.d.cursor == 1);
        if lt == T::External && instr == Instruction::EmptyApply {
            pa!("C17", s.d.n_calls == 1 && s.d.calls[0].kind == HostKind::Apply && s.d.calls[0].left.1 == s.d.cells[left].a);
        } else if defined {
            pa!("C08", s.d.n_calls == 0);
        } else if instr == Instruction::EmptyApply {
            // the implicit right operand is a fresh unit value
            pa!("C08", s.d.n_calls == 1);
            let c = s.d.calls[0];
            pa!("C08", c.kind == HostKind::DeferOp && c.op == instr && c.left.0 == lt && c.left.1 == left && c.right.0 == T::Unit);
            let t = top(&s.d);
            if c.accepted {
                pa!("C08", s.d.cells[t].tag == T::Number);
            } else {
                pa!("C08", s.d.cells[t].tag == T::Unit);
            }
        } else {
            assert_deferred(&s, instr, (lt, left), (T::Unit, 0));
        }
    }
}
