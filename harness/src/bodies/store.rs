//! (D) harnesses on the two SHIPPED stores: does each honour the part of the data-trait contract the
//! runtime-level (R) harnesses assume? State built through the public API with a concrete shape,
//! contents symbolic, one method family per harness.

use crate::nondet::Nondet;
use garnish_lang_simple_data::{BasicGarnishData, NoOpCompanion, SimpleData, SimpleGarnishData, SimpleNumber};
use garnish_lang_traits::{GarnishData, GarnishDataType as T};

pub type Basic = BasicGarnishData<(), NoOpCompanion>;

/// Result -> Option without running DataError's drop glue: a DataError holds a std Backtrace whose drop
/// (frames, symbols) CBMC unrolls to the unwind bound whenever the Ok/Err variant is a symbolic merge
pub fn ok<V>(r: Result<V, garnish_lang_simple_data::DataError>) -> Option<V> {
    match r {
        Ok(v) => Some(v),
        Err(e) => {
            std::mem::forget(e);
            None
        }
    }
}

/// a BasicGarnishData with small blocks (needs the export hook: cfg(kani) under Kani, cfg(garnish_verif) for the
/// native replay binary; a plain native build - selftest, explore - falls back to the default settings)
#[cfg(any(kani, garnish_verif))]
pub fn small_basic(data_cells: usize) -> Basic {
    use garnish_lang_simple_data::{ReallocationStrategy, StorageSettings};
    let s = |n: usize| StorageSettings::new(n, usize::MAX, ReallocationStrategy::FixedSize(4));
    BasicGarnishData::new_with_settings(s(2), s(2), s(2), s(1), s(data_cells), s(0), NoOpCompanion::new()).unwrap()
}

/// every block: initial size 1, multiplicative growth x2 (1 -> 2 -> 4 -> 8)
#[cfg(any(kani, garnish_verif))]
pub fn small_basic_x2() -> Basic {
    use garnish_lang_simple_data::{ReallocationStrategy, StorageSettings};
    let s = || StorageSettings::new(1, usize::MAX, ReallocationStrategy::Multiplicative(2));
    BasicGarnishData::new_with_settings(s(), s(), s(), s(), s(), s(), NoOpCompanion::new()).unwrap()
}

#[cfg(not(any(kani, garnish_verif)))]
pub fn small_basic_x2() -> Basic {
    BasicGarnishData::new(NoOpCompanion::new()).unwrap()
}

#[cfg(not(any(kani, garnish_verif)))]
pub fn small_basic(_data_cells: usize) -> Basic {
    BasicGarnishData::new(NoOpCompanion::new()).unwrap()
}

// ------------------------------------------------------------------------------------------- frames / registers

/// C06 (store level): BasicGarnishData's register stack and frame chain behave as stacks.
/// Scenario: k0 registers, frame x, k1 registers, frame y, k2 registers; then pop_frame twice.
/// k0, k1, k2 in 0..=1 symbolic: includes "a call made from inside a call while the operand stack is empty".
pub fn basic_frames<N: Nondet, const K: u8>(n: &mut N) {
    const FRAME_HEAP: usize = 12;
    // the number of pushes is concrete per harness (a symbolic block cursor makes every push a possible
    // reallocation: DESIGN.md probe 12); K enumerates the 8 shapes
    let (k0, k1, k2) = (K & 1 != 0, K & 2 != 0, K & 4 != 0);
    let (x, y) = (n.usize_below(1000), n.usize_below(1000));
    let mut d = small_basic(FRAME_HEAP);
    let u = d.add_unit().unwrap();
    let v = d.add_true().unwrap();
    if k0 {
        d.push_register(u).unwrap();
    }
    let len0 = d.get_register_len();
    pa!("C06,C15", len0 == k0 as usize);
    d.push_frame(x).unwrap();
    if k1 {
        d.push_register(v).unwrap();
    }
    let len1 = d.get_register_len();
    pa!("C06,C15", len1 == k0 as usize + k1 as usize);
    d.push_frame(y).unwrap();
    if k2 {
        d.push_register(u).unwrap();
    }
    gv_cover!(true, "reached");
    pa!("C06,C15", d.get_register_len() == k0 as usize + k1 as usize + k2 as usize);
    // return from the inner call: its return address, registers back to the depth at its call
    let r = ok(d.pop_frame());
    pa!("C06,C15", matches!(r, Some(Some(a)) if a == y));
    pa!("C06,C15", d.get_register_len() == len1);
    if k1 {
        pa!("C06,C15", d.get_register(len1 - 1) == Some(v));
    }
    // return from the outer call
    let r = ok(d.pop_frame());
    pa!("C06,C15", matches!(r, Some(Some(a)) if a == x));
    pa!("C06,C15", d.get_register_len() == len0);
    if k0 {
        pa!("C06,C15", matches!(ok(d.pop_register()), Some(Some(a)) if a == u));
    }
    // no frame left
    pa!("C06,C15", matches!(ok(d.pop_frame()), Some(None)));
    pa!("C06,C15", matches!(ok(d.pop_register()), Some(None)));
    std::mem::forget(d);
}

/// value stack of BasicGarnishData: push / current / update / pop
pub fn basic_values<N: Nondet, const UPDATE: bool>(_n: &mut N) {
    let mut d = small_basic(24);
    let a = d.add_unit().unwrap();
    let b = d.add_true().unwrap();
    let c = d.add_false().unwrap();
    pa!("C06,C15", d.get_current_value().is_none());
    d.push_value_stack(a).unwrap();
    d.push_register(c).unwrap();
    d.push_value_stack(b).unwrap();
    pa!("C06,C15", d.get_current_value() == Some(b));
    if UPDATE {
        match d.get_current_value_mut() {
            Some(v) => *v = c,
            None => pa!("C06,C15", false),
        }
        pa!("C06,C15", d.get_current_value() == Some(c));
        pa!("C06,C15", d.pop_value_stack() == Some(c));
    } else {
        pa!("C06,C15", d.pop_value_stack() == Some(b));
    }
    pa!("C06,C15", d.get_current_value() == Some(a));
    pa!("C06,C15", d.get_register_len() == 1);
    pa!("C06,C15", d.pop_value_stack() == Some(a));
    pa!("C06,C15", d.pop_value_stack().is_none());
    std::mem::forget(d);
}

// ------------------------------------------------------------------------------------------- lists

const KEYS: [u64; 2] = [20, 10];

/// C16 (store level, BasicGarnishData): a list of two pairs keyed by the concrete symbols 20 and 10 inserted
/// in the order given by ORDER (both orders), optionally followed by an unkeyed item (a number); length,
/// index access, iteration order, and lookup of a SYMBOLIC symbol.
pub fn basic_list<N: Nondet, const ORDER: usize, const UNKEYED: bool>(n: &mut N) {
    const PERMS: [[usize; 2]; 2] = [[0, 1], [1, 0]];
    let perm = PERMS[ORDER];
    let mut d = small_basic(24);
    let vals = [n.i32(), n.i32()];
    let mut pairs = [0usize; 2];
    let mut vaddr = [0usize; 2];
    let mut i = 0;
    while i < 2 {
        let s = d.add_symbol(KEYS[i]).unwrap();
        let v = d.add_number(SimpleNumber::Integer(vals[i])).unwrap();
        vaddr[i] = v;
        pairs[i] = d.add_pair((s, v)).unwrap();
        i += 1;
    }
    let plain = d.add_number(SimpleNumber::Integer(n.i32())).unwrap();
    let len = if UNKEYED { 3 } else { 2 };
    let mut l = d.start_list(len).unwrap();
    let mut i = 0;
    while i < 2 {
        l = d.add_to_list(l, pairs[perm[i]]).unwrap();
        i += 1;
    }
    if UNKEYED {
        l = d.add_to_list(l, plain).unwrap();
    }
    let list = d.end_list(l).unwrap();
    gv_cover!(true, "list built");
    pa!("C16", matches!(ok(d.get_list_len(list)), Some(k) if k == len));
    // index access inside the list, insertion order
    let mut i = 0;
    while i < 2 {
        pa!("C16", matches!(ok(d.get_list_item(list, SimpleNumber::Integer(i as i32))), Some(Some(a)) if a == pairs[perm[i]]));
        i += 1;
    }
    // lookup of a symbolic symbol: the value of the pair keyed by it, else absent; never an error
    let sym = n.u64();
    let r = ok(d.get_list_item_with_symbol(list, sym));
    let mut want = None;
    let mut i = 0;
    while i < 2 {
        if sym == KEYS[i] {
            want = Some(vaddr[i]);
        }
        i += 1;
    }
    match r {
        Some(got) => pa!("C16", got == want),
        None => pa!("C16", false),
    }
    std::mem::forget(d);
}

/// recorded finding witness: BasicGarnishData::get_list_item with an index >= len is an Err, not "no item"
pub fn basic_list_index_out_of_range_kf<N: Nondet>(n: &mut N) {
    let mut d = small_basic(24);
    let v = d.add_number(SimpleNumber::Integer(n.i32())).unwrap();
    let l = d.start_list(1).unwrap();
    let l = d.add_to_list(l, v).unwrap();
    let list = d.end_list(l).unwrap();
    let idx = n.i32();
    n.assume(idx >= 1);
    pa!("C16", matches!(ok(d.get_list_item(list, SimpleNumber::Integer(idx))), Some(None)));
    std::mem::forget(d);
}

/// C16 / C07 (store level, SimpleGarnishData): two lists built one after the other; the first holds pairs keyed
/// by k0 and k1 (symbolic, distinct), the second holds N items keyed by k2.. (N = 0..2); lookup of a symbolic
/// symbol in the SECOND list: value of its pair or absent; never an error, never a panic (N = 0: empty list).
pub fn simple_list<N: Nondet, const SECOND_LEN: usize>(n: &mut N) {
    let mut d = SimpleGarnishData::new();
    let (k0, k1, k2, k3) = (n.u64(), n.u64(), n.u64(), n.u64());
    n.assume(k0 != k1 && k2 != k3);
    let mk = |d: &mut SimpleGarnishData, k: u64, v: i32| -> (usize, usize) {
        d.get_data_mut().push(SimpleData::Symbol(k));
        let s = d.get_data().len() - 1;
        d.get_data_mut().push(SimpleData::Number(SimpleNumber::Integer(v)));
        let v = d.get_data().len() - 1;
        let p = d.add_pair((s, v)).unwrap();
        (p, v)
    };
    let (pa0, _) = mk(&mut d, k0, 1);
    let (pa1, _) = mk(&mut d, k1, 2);
    let l = d.start_list(2).unwrap();
    let l = d.add_to_list(l, pa0).unwrap();
    let l = d.add_to_list(l, pa1).unwrap();
    let first = d.end_list(l).unwrap();
    let (pb0, vb0) = mk(&mut d, k2, 3);
    let (pb1, vb1) = mk(&mut d, k3, 4);
    let l = d.start_list(SECOND_LEN).unwrap();
    let mut l = l;
    if SECOND_LEN > 0 {
        l = d.add_to_list(l, pb0).unwrap();
    }
    if SECOND_LEN > 1 {
        l = d.add_to_list(l, pb1).unwrap();
    }
    let second = d.end_list(l).unwrap();
    gv_cover!(true, "lists built");
    pa!("C16", matches!(ok(d.get_list_len(second)), Some(k) if k == SECOND_LEN));
    pa!("C16", matches!(ok(d.get_list_len(first)), Some(2)));
    let sym = n.u64();
    let mut want = None;
    if SECOND_LEN > 0 && sym == k2 {
        want = Some(vb0);
    }
    if SECOND_LEN > 1 && sym == k3 {
        want = Some(vb1);
    }
    match ok(d.get_list_item_with_symbol(second, sym)) {
        Some(got) => pa!("C16", got == want),
        None => pa!("C16", false),
    }
    // index access
    let idx = n.i32();
    n.assume(idx >= 0);
    match ok(d.get_list_item(second, SimpleNumber::Integer(idx))) {
        Some(got) => {
            let w = if (idx as usize) < SECOND_LEN { Some(if idx == 0 { pb0 } else { pb1 }) } else { None };
            pa!("C16", got == w);
        }
        None => pa!("C16", false),
    }
    std::mem::forget(d);
}

/// recorded finding witness: SimpleGarnishData lookup in a list that contains an unkeyed item is an Err
pub fn simple_list_unkeyed_kf<N: Nondet>(n: &mut N) {
    let mut d = SimpleGarnishData::new();
    d.get_data_mut().push(SimpleData::Number(SimpleNumber::Integer(n.i32())));
    let v = d.get_data().len() - 1;
    let l = d.start_list(1).unwrap();
    let l = d.add_to_list(l, v).unwrap();
    let list = d.end_list(l).unwrap();
    let sym = n.u64();
    pa!("C16", matches!(ok(d.get_list_item_with_symbol(list, sym)), Some(None)));
    std::mem::forget(d);
}

// ------------------------------------------------------------------------------------------- data read-back

/// C15 (store level, BasicGarnishData): values of every scalar kind pushed into a data block that has to grow
/// (initial size SMALL) read back with the same type and content; instructions and jump entries pushed in
/// between (their blocks grow too) do not disturb them.
pub fn basic_readback<N: Nondet, const MULTIPLICATIVE: bool>(n: &mut N) {
    let mut d = if MULTIPLICATIVE { small_basic_x2() } else { small_basic(2) };
    let (a, b, c) = (n.i32(), n.u64(), n.u8());
    let x = d.add_number(SimpleNumber::Integer(a)).unwrap();
    d.push_to_jump_table(7).unwrap();
    let y = d.add_symbol(b).unwrap();
    d.push_instruction(garnish_lang_traits::Instruction::Add, Some(3)).unwrap();
    let z = d.add_byte(c).unwrap();
    d.push_to_jump_table(8).unwrap();
    d.push_to_jump_table(9).unwrap();
    let p = d.add_pair((x, y)).unwrap();
    d.push_instruction(garnish_lang_traits::Instruction::Put, None).unwrap();
    d.push_instruction(garnish_lang_traits::Instruction::EndExpression, None).unwrap();
    let u = d.add_unit().unwrap();
    gv_cover!(true, "filled");
    pa!("C15", matches!(ok(d.get_number(x)), Some(SimpleNumber::Integer(v)) if v == a));
    pa!("C15", matches!(ok(d.get_symbol(y)), Some(v) if v == b));
    pa!("C15", matches!(ok(d.get_byte(z)), Some(v) if v == c));
    pa!("C15", matches!(ok(d.get_pair(p)), Some((l, r)) if l == x && r == y));
    pa!("C15", matches!(ok(d.get_data_type(u)), Some(T::Unit)));
    pa!("C15", d.get_from_jump_table(0) == Some(7) && d.get_from_jump_table(1) == Some(8) && d.get_from_jump_table(2) == Some(9));
    pa!("C15", d.get_instruction(0) == Some((garnish_lang_traits::Instruction::Add, Some(3))));
    pa!("C15", d.get_instruction(2) == Some((garnish_lang_traits::Instruction::EndExpression, None)));
    pa!("C15", d.get_data_len() == 5 && d.get_instruction_len() == 3 && d.get_jump_table_len() == 3);
    std::mem::forget(d);
}

/// recorded finding witness (C07): casting a Custom value to a char list on SimpleGarnishData reaches `todo!()`
pub fn simple_cast_custom_kf<N: Nondet>(_n: &mut N) {
    use garnish_lang_simple_data::NoCustom;
    let mut d = SimpleGarnishData::new();
    let c = d.add_custom(NoCustom {}).unwrap();
    let r = ok(d.add_char_list_from(c));
    // any answer (a value or an error) is fine; a panic is not
    let _ = r;
    std::mem::forget(d);
}

// ------------------------------------------------------------------------------------- C19: clone_data / optimize
// NOT part of any claim: Kani/CBMC does not decide these bodies (c19_clone_pair did not finish in 900 s / 17 GB even
// with concrete leaves; DESIGN.md section 0 item 10 has the measured cause). They are kept registered so that the
// measurement can be repeated (`cargo kani --harness proofs::store::c19_clone_pair`) and because `selftest c19_ N`
// shows natively that the oracle agrees with the unchanged tree.

/// a BasicGarnishData whose data block starts at `data_cells` and grows by `growth` (other blocks small, fixed +4)
#[cfg(any(kani, garnish_verif))]
pub fn sized_basic(data_cells: usize, growth: usize) -> Basic {
    use garnish_lang_simple_data::{ReallocationStrategy, StorageSettings};
    let s = |n: usize| StorageSettings::new(n, usize::MAX, ReallocationStrategy::FixedSize(4));
    let dblock = StorageSettings::new(data_cells, usize::MAX, ReallocationStrategy::FixedSize(growth));
    BasicGarnishData::new_with_settings(s(2), s(2), s(2), s(1), dblock, s(0), NoOpCompanion::new()).unwrap()
}

#[cfg(not(any(kani, garnish_verif)))]
pub fn sized_basic(_data_cells: usize, _growth: usize) -> Basic {
    BasicGarnishData::new(NoOpCompanion::new()).unwrap()
}

pub const FP_LEN: usize = 32;

/// structural read-back of a value through the GarnishData getters only: a pre-order sequence of type codes and
/// payloads (addresses never enter it). Two values are structurally identical iff their fingerprints are equal.
pub struct Fingerprint {
    pub v: [u64; FP_LEN],
    pub n: usize,
    /// a getter returned Err / None where a value must be, or the walk ran out of depth
    pub err: bool,
}

impl Fingerprint {
    pub fn new() -> Self {
        Fingerprint { v: [0; FP_LEN], n: 0, err: false }
    }
    fn push(&mut self, x: u64) {
        if self.n < FP_LEN {
            self.v[self.n] = x;
        }
        self.n += 1;
    }
    pub fn same(&self, o: &Fingerprint) -> bool {
        if self.n != o.n || self.n > FP_LEN || self.err != o.err {
            return false;
        }
        let mut i = 0;
        let mut eq = true;
        while i < FP_LEN {
            if i < self.n && self.v[i] != o.v[i] {
                eq = false;
            }
            i += 1;
        }
        eq
    }
    pub fn has_error(&self) -> bool {
        self.err
    }
    fn fail(&mut self) {
        self.err = true;
        self.push(0);
    }
}

pub fn fingerprint(d: &Basic, a: usize, depth: u8, f: &mut Fingerprint) {
    let t = match ok(d.get_data_type(a)) {
        Some(t) => t,
        None => {
            f.fail();
            return;
        }
    };
    match t {
        T::Unit => f.push(1),
        T::True => f.push(2),
        T::False => f.push(3),
        T::Number => {
            f.push(4);
            match ok(d.get_number(a)) {
                Some(SimpleNumber::Integer(v)) => f.push(v as u32 as u64),
                Some(SimpleNumber::Float(x)) => { f.push(0xF); f.push(x.to_bits()) },
                None => f.fail(),
            }
        }
        T::Symbol => {
            f.push(5);
            match ok(d.get_symbol(a)) {
                Some(s) => f.push(s),
                None => f.fail(),
            }
        }
        T::Byte => {
            f.push(6);
            match ok(d.get_byte(a)) {
                Some(b) => f.push(b as u64),
                None => f.fail(),
            }
        }
        T::Char => {
            f.push(7);
            match ok(d.get_char(a)) {
                Some(c) => f.push(c as u64),
                None => f.fail(),
            }
        }
        T::Pair | T::Concatenation => {
            f.push(if matches!(t, T::Pair) { 8 } else { 9 });
            if depth == 0 {
                f.fail();
                return;
            }
            let parts = if matches!(t, T::Pair) { ok(d.get_pair(a)) } else { ok(d.get_concatenation(a)) };
            match parts {
                Some((l, r)) => {
                    fingerprint(d, l, depth - 1, f);
                    fingerprint(d, r, depth - 1, f);
                }
                None => f.fail(),
            }
        }
        T::List => {
            f.push(10);
            if depth == 0 {
                f.fail();
                return;
            }
            match ok(d.get_list_len(a)) {
                Some(len) => {
                    f.push(len as u64);
                    let mut i = 0;
                    while i < len && i < 4 {
                        match ok(d.get_list_item(a, SimpleNumber::Integer(i as i32))) {
                            Some(Some(item)) => fingerprint(d, item, depth - 1, f),
                            _ => f.fail(),
                        }
                        i += 1;
                    }
                }
                None => f.fail(),
            }
        }
        _ => f.push(100),
    }
}

/// C19 (clone_data): a value of a concrete SHAPE with symbolic leaves is cloned on the real BasicGarnishData
/// (data block 10 cells, one growth step during the clone). The clone is at a new address, reads back
/// structurally identical to the original (fingerprint through the public getters, key lookups included) and
/// the original still reads back as before.
///   0: (n0 = :s)                 1: p3 = (p2 = p2), p2 = (p1 = p1), p1 = (n0 = n0)  (shared sub-values, 15 paths)
///   2: (:20 = n0, n1) keyed list 3: ((n0,) <> n1) = (n2 = (n0,))  (concatenation, nested, shared list)
pub fn basic_clone<N: Nondet, const SHAPE: u8>(n: &mut N) {
    let mut d = sized_basic(10, 30);
    let (a, b, c, s) = (n.i32(), n.i32(), n.i32(), n.u64());
    let n0 = d.add_number(SimpleNumber::Integer(a)).unwrap();
    let mut keyed = None;
    let root = match SHAPE {
        0 => {
            let y = d.add_symbol(s).unwrap();
            d.add_pair((n0, y)).unwrap()
        }
        1 => {
            let p1 = d.add_pair((n0, n0)).unwrap();
            let p2 = d.add_pair((p1, p1)).unwrap();
            d.add_pair((p2, p2)).unwrap()
        }
        2 => {
            let k = d.add_symbol(KEYS[0]).unwrap();
            let kp = d.add_pair((k, n0)).unwrap();
            let n1 = d.add_number(SimpleNumber::Integer(b)).unwrap();
            let l = d.start_list(2).unwrap();
            let l = d.add_to_list(l, kp).unwrap();
            let l = d.add_to_list(l, n1).unwrap();
            keyed = Some(KEYS[0]);
            d.end_list(l).unwrap()
        }
        _ => {
            let l = d.start_list(1).unwrap();
            let l = d.add_to_list(l, n0).unwrap();
            let list = d.end_list(l).unwrap();
            let n1 = d.add_number(SimpleNumber::Integer(b)).unwrap();
            let n2 = d.add_number(SimpleNumber::Integer(c)).unwrap();
            let cat = d.add_concatenation(list, n1).unwrap();
            let inner = d.add_pair((n2, list)).unwrap();
            d.add_pair((cat, inner)).unwrap()
        }
    };
    let mut before = Fingerprint::new();
    fingerprint(&d, root, 4, &mut before);
    pa!("C19", !before.has_error() && before.n <= FP_LEN);
    gv_cover!(true, "value built");
    let new = match ok(d.clone_data(root)) {
        Some(x) => x,
        None => {
            pa!("C19", false);
            std::mem::forget(d);
            return;
        }
    };
    pa!("C19", new != root);
    let mut copy = Fingerprint::new();
    fingerprint(&d, new, 4, &mut copy);
    pa!("C19", copy.same(&before));
    let mut after = Fingerprint::new();
    fingerprint(&d, root, 4, &mut after);
    pa!("C19", after.same(&before));
    if let Some(k) = keyed {
        // the key table of the copy finds the same value
        let (o, c2) = (ok(d.get_list_item_with_symbol(root, k)), ok(d.get_list_item_with_symbol(new, k)));
        match (o, c2) {
            (Some(Some(x)), Some(Some(y))) => {
                let (mut fx, mut fy) = (Fingerprint::new(), Fingerprint::new());
                fingerprint(&d, x, 2, &mut fx);
                fingerprint(&d, y, 2, &mut fy);
                pa!("C19", fx.same(&fy) && !fx.has_error());
            }
            _ => pa!("C19", false),
        }
        let absent = ok(d.get_list_item_with_symbol(new, KEYS[1]));
        pa!("C19", matches!(absent, Some(None)));
    }
    std::mem::forget(d);
}

/// C19 (optimize, values): garbage, a value on the value stack, garbage, a value on the operand stack, an extra
/// root that SHARES a sub-value with the stacked one (a root already reachable from a stack). After optimize the
/// three read back structurally identical at the addresses the store reports (value stack head, popped operand,
/// returned mapping). RETAIN: the first values are a retained prefix and must keep their addresses; a value
/// built after the retention point references a retained one.
pub fn basic_optimize_values<N: Nondet, const RETAIN: bool>(n: &mut N) {
    let mut d = sized_basic(16, 30);
    let (a, b, c, s, g) = (n.i32(), n.i32(), n.i32(), n.u64(), n.i32());
    let n0 = d.add_number(SimpleNumber::Integer(a)).unwrap();
    let r1 = d.add_pair((n0, n0)).unwrap();
    if RETAIN {
        d.retain_all_current_data();
    }
    let _g0 = d.add_number(SimpleNumber::Integer(g)).unwrap();
    let y = d.add_symbol(s).unwrap();
    let v = d.add_pair((r1, y)).unwrap();
    d.push_value_stack(v).unwrap();
    let _g1 = d.add_pair((y, y)).unwrap();
    let n1 = d.add_number(SimpleNumber::Integer(b)).unwrap();
    d.push_register(n1).unwrap();
    let n2 = d.add_number(SimpleNumber::Integer(c)).unwrap();
    let extra = d.add_pair((y, n2)).unwrap();
    let _g2 = d.add_unit().unwrap();
    let (mut fv, mut fr, mut fe, mut fp) = (Fingerprint::new(), Fingerprint::new(), Fingerprint::new(), Fingerprint::new());
    fingerprint(&d, v, 4, &mut fv);
    fingerprint(&d, n1, 4, &mut fr);
    fingerprint(&d, extra, 4, &mut fe);
    fingerprint(&d, r1, 4, &mut fp);
    pa!("C19", !fv.has_error() && !fe.has_error());
    gv_cover!(true, "store filled");
    let roots = [extra, r1];
    let map = match ok(d.optimize(&roots)) {
        Some(m) => m,
        None => {
            pa!("C19", false);
            std::mem::forget(d);
            return;
        }
    };
    pa!("C19", map.len() == 2);
    let (me, mp) = (map[0], map[1]);
    std::mem::forget(map);
    if RETAIN {
        pa!("C19", mp == r1);
    }
    let (mut gv, mut gr, mut ge, mut gp) = (Fingerprint::new(), Fingerprint::new(), Fingerprint::new(), Fingerprint::new());
    match d.get_current_value() {
        Some(x) => fingerprint(&d, x, 4, &mut gv),
        None => pa!("C19", false),
    }
    pa!("C19", gv.same(&fv));
    fingerprint(&d, me, 4, &mut ge);
    pa!("C19", ge.same(&fe));
    fingerprint(&d, mp, 4, &mut gp);
    pa!("C19", gp.same(&fp));
    match ok(d.pop_register()) {
        Some(Some(x)) => fingerprint(&d, x, 4, &mut gr),
        _ => pa!("C19", false),
    }
    pa!("C19", gr.same(&fr));
    pa!("C19", matches!(ok(d.pop_register()), Some(None)));
    pa!("C19", d.pop_value_stack().is_some() && d.pop_value_stack().is_none());
    std::mem::forget(d);
}

/// C19 (optimize, frames): garbage, frame x pushed [K&1: with an operand pending], frame y pushed [K&2: with an
/// operand pending] - so the inner frame is a "call made inside a call", for K&2 == 0 with an empty operand
/// stack - then optimize moves everything down over the garbage. Execution continues as if nothing had happened:
/// pop_frame returns y then x, restores the operand depth of each call, then reports no frame.
pub fn basic_optimize_frames<N: Nondet, const K: u8>(n: &mut N) {
    let mut d = sized_basic(16, 30);
    let (x, y, a) = (n.usize_below(1000), n.usize_below(1000), n.i32());
    let _g0 = d.add_number(SimpleNumber::Integer(a)).unwrap();
    let _g1 = d.add_unit().unwrap();
    let u = d.add_true().unwrap();
    if K & 1 != 0 {
        d.push_register(u).unwrap();
    }
    d.push_frame(x).unwrap();
    if K & 2 != 0 {
        d.push_register(u).unwrap();
    }
    d.push_frame(y).unwrap();
    gv_cover!(true, "frames pushed");
    let r = ok(d.optimize(&[]));
    pa!("C19", r.is_some());
    std::mem::forget(r);
    pa!("C19", matches!(ok(d.pop_frame()), Some(Some(p)) if p == y));
    // operands of the outer call: the one pushed after frame x (if any)
    if K & 2 != 0 {
        pa!("C19", matches!(ok(d.pop_register()), Some(Some(r)) if matches!(ok(d.get_data_type(r)), Some(T::True))));
    }
    pa!("C19", matches!(ok(d.pop_frame()), Some(Some(p)) if p == x));
    if K & 1 != 0 {
        pa!("C19", matches!(ok(d.pop_register()), Some(Some(r)) if matches!(ok(d.get_data_type(r)), Some(T::True))));
    }
    pa!("C19", matches!(ok(d.pop_register()), Some(None)));
    pa!("C19", matches!(ok(d.pop_frame()), Some(None)));
    std::mem::forget(d);
}
