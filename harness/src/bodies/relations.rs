//! C11 (equality), C12 (ordering) and C16 (list order / key lookup) on the contract model: one
//! instruction step through the real `execute_current_instruction`, operands built from a fixture with
//! symbolic contents, result compared with a reference relation written here.

use crate::bodies::dispatch::*;
use crate::bodies::step::*;
use crate::bounded::*;
use crate::nondet::Nondet;
use crate::state::*;
use garnish_lang_runtime::execute_current_instruction;
use garnish_lang_simple_data::SimpleNumber;
use garnish_lang_traits::{GarnishData, GarnishDataType as T, Instruction};
use std::cmp::Ordering;

// ------------------------------------------------------------------------------------------- reference relations

/// numeric order of two numbers (integers and floats mixed); None when a float is NaN
pub fn ref_num_cmp(a: SimpleNumber, b: SimpleNumber) -> Option<Ordering> {
    match (a, b) {
        (SimpleNumber::Integer(x), SimpleNumber::Integer(y)) => Some(if x < y { Ordering::Less } else if x > y { Ordering::Greater } else { Ordering::Equal }),
        _ => {
            // every i32 is exactly representable as f64
            let x = match a {
                SimpleNumber::Integer(v) => v as f64,
                SimpleNumber::Float(v) => v,
            };
            let y = match b {
                SimpleNumber::Integer(v) => v as f64,
                SimpleNumber::Float(v) => v,
            };
            if x.is_nan() || y.is_nan() {
                None
            } else if x < y {
                Some(Ordering::Less)
            } else if x > y {
                Some(Ordering::Greater)
            } else {
                Some(Ordering::Equal)
            }
        }
    }
}

fn ord_u32(x: u32, y: u32) -> Ordering {
    if x < y { Ordering::Less } else if x > y { Ordering::Greater } else { Ordering::Equal }
}

/// lexicographic order with the shorter prefix first, over up to 3 elements
fn lex_cmp(a: &[u32; 3], la: usize, b: &[u32; 3], lb: usize) -> Ordering {
    let mut i = 0;
    while i < 3 {
        if i < la && i < lb {
            let o = ord_u32(a[i], b[i]);
            if o != Ordering::Equal {
                return o;
            }
        }
        i += 1;
    }
    ord_u32(la as u32, lb as u32)
}

fn want_bool(instr: Instruction, o: Ordering) -> bool {
    match instr {
        Instruction::LessThan => o == Ordering::Less,
        Instruction::LessThanOrEqual => o != Ordering::Greater,
        Instruction::GreaterThan => o == Ordering::Greater,
        _ => o != Ordering::Less,
    }
}

const LISTED: [T; 12] = [T::Unit, T::True, T::False, T::Number, T::Char, T::Byte, T::Symbol, T::SymbolList, T::CharList, T::ByteList, T::Pair, T::List];

fn listed(t: T) -> bool {
    let mut i = 0;
    while i < 12 {
        if LISTED[i] == t {
            return true;
        }
        i += 1;
    }
    t == T::Concatenation
}

/// flat item sequence of a list or concatenation (C11: "lists and concatenations as the flat sequences of their items")
fn flat<const C: usize>(d: &BoundedData<C>, a: usize, out: &mut [usize; ITEMS]) -> Option<usize> {
    let c = d.cells[a];
    match c.tag {
        T::List => {
            let mut i = 0;
            while i < 3 {
                if i < c.b {
                    out[i] = d.items[c.a + i];
                }
                i += 1;
            }
            if c.b <= 3 { Some(c.b) } else { None }
        }
        T::Concatenation => match d.flatten_concat(a, out) {
            Ok(n) => Some(n),
            Err(_) => None,
        },
        _ => None,
    }
}

/// structural equality as C11 states it; None = outside the reference's scope (too deep / too long / unlisted type)
pub fn ref_eq<const C: usize>(d: &BoundedData<C>, a: usize, b: usize, depth: usize) -> Option<bool> {
    let (x, y) = (d.cells[a], d.cells[b]);
    if !listed(x.tag) || !listed(y.tag) {
        return None;
    }
    match (x.tag, y.tag) {
        (T::Unit, T::Unit) | (T::True, T::True) | (T::False, T::False) => Some(true),
        (T::Number, T::Number) => Some(ref_num_cmp(x.num, y.num) == Some(Ordering::Equal)),
        (T::Symbol, T::Symbol) => Some(x.sym == y.sym),
        (T::Char, T::Char) | (T::Byte, T::Byte) => Some(x.a == y.a),
        (T::Char, T::CharList) => Some(y.b == 1 && d.chars[y.a] as u32 as usize == x.a),
        (T::CharList, T::Char) => Some(x.b == 1 && d.chars[x.a] as u32 as usize == y.a),
        (T::Byte, T::ByteList) => Some(y.b == 1 && d.bytes[y.a] as usize == x.a),
        (T::ByteList, T::Byte) => Some(x.b == 1 && d.bytes[x.a] as usize == y.a),
        (T::CharList, T::CharList) => {
            let mut eq = x.b == y.b;
            let mut i = 0;
            while i < 3 {
                if eq && i < x.b && d.chars[x.a + i] != d.chars[y.a + i] {
                    eq = false;
                }
                i += 1;
            }
            Some(eq)
        }
        (T::ByteList, T::ByteList) => {
            let mut eq = x.b == y.b;
            let mut i = 0;
            while i < 3 {
                if eq && i < x.b && d.bytes[x.a + i] != d.bytes[y.a + i] {
                    eq = false;
                }
                i += 1;
            }
            Some(eq)
        }
        (T::SymbolList, T::SymbolList) => {
            let mut eq = x.b == y.b;
            let mut i = 0;
            while i < 3 {
                if eq && i < x.b {
                    let (p, q) = (d.symparts[x.a + i], d.symparts[y.a + i]);
                    let same = if p.is_sym != q.is_sym { false } else if p.is_sym { p.sym == q.sym } else { ref_num_cmp(p.num, q.num) == Some(Ordering::Equal) };
                    if !same {
                        eq = false;
                    }
                }
                i += 1;
            }
            Some(eq)
        }
        (T::Pair, T::Pair) => {
            if depth == 0 {
                return None;
            }
            match (ref_eq(d, x.a, y.a, depth - 1), ref_eq(d, x.b, y.b, depth - 1)) {
                (Some(l), Some(r)) => Some(l && r),
                (Some(false), _) | (_, Some(false)) => Some(false),
                _ => None,
            }
        }
        (T::List, T::List) | (T::List, T::Concatenation) | (T::Concatenation, T::List) | (T::Concatenation, T::Concatenation) => {
            if depth == 0 {
                return None;
            }
            let mut fa = [0usize; ITEMS];
            let mut fb = [0usize; ITEMS];
            let (na, nb) = match (flat(d, a, &mut fa), flat(d, b, &mut fb)) {
                (Some(p), Some(q)) => (p, q),
                _ => return None,
            };
            if na != nb {
                return Some(false);
            }
            if na > 4 {
                return None;
            }
            let mut res = Some(true);
            let mut i = 0;
            while i < 4 {
                if i < na {
                    match ref_eq(d, fa[i], fb[i], depth - 1) {
                        Some(true) => {}
                        Some(false) => return Some(false),
                        None => res = None,
                    }
                }
                i += 1;
            }
            res
        }
        _ => Some(false),
    }
}

// ------------------------------------------------------------------------------------------- C12

fn finish<N: Nondet>(n: &mut N, mut d: SD, ops: &[usize], instr: Instruction) -> Step {
    script_host(n, &mut d, 1);
    let sentinel = d.add_unit().unwrap();
    d.push_register(sentinel).unwrap();
    let mut i = 0;
    while i < ops.len() {
        d.push_register(ops[i]).unwrap();
        i += 1;
    }
    d.push_instruction(instr, None).unwrap();
    d.push_instruction(Instruction::EndExpression, None).unwrap();
    Step { sentinel, cells_before: d.n_cells, regs_before: d.n_regs, values_before: d.n_values, frames_before: d.n_frames, d }
}

fn any_f64_or_int<N: Nondet>(n: &mut N) -> SimpleNumber {
    if n.bool() { SimpleNumber::Float(n.f64()) } else { SimpleNumber::Integer(n.i32()) }
}

/// the four ordering instructions on: CLS 0 two numbers (any i32 / any f64 incl. NaN, inf, -0.0);
/// 1 two chars; 2 two bytes; 3 two char lists (0..3); 4 two byte lists (0..3); 5 any other pair of types
pub fn compare<N: Nondet, const I: usize, const CLS: u8>(n: &mut N) {
    let instr = ALL_INSTRUCTIONS[I];
    let mut d: SD = BoundedData::new();
    let mut expect: Option<Option<Ordering>> = None; // Some(None) = unit, Some(Some(o)) = ordering, None = "all false"
    let (l, r);
    match CLS {
        0 => {
            let (a, b) = (any_f64_or_int(n), any_f64_or_int(n));
            l = d.add_number(a).unwrap();
            r = d.add_number(b).unwrap();
            expect = Some(ref_num_cmp(a, b));
        }
        1 => {
            let (a, b) = (any_char(n), any_char(n));
            l = d.add_char(a).unwrap();
            r = d.add_char(b).unwrap();
            expect = Some(Some(ord_u32(a as u32, b as u32)));
        }
        2 => {
            let (a, b) = (n.u8(), n.u8());
            l = d.add_byte(a).unwrap();
            r = d.add_byte(b).unwrap();
            expect = Some(Some(ord_u32(a as u32, b as u32)));
        }
        3 => {
            let (la, lb) = (n.usize_below(4), n.usize_below(4));
            let ca = [any_char(n), any_char(n), any_char(n)];
            let cb = [any_char(n), any_char(n), any_char(n)];
            l = d.add_char_list_direct(&ca[..0]);
            d.chars[0] = ca[0];
            d.chars[1] = ca[1];
            d.chars[2] = ca[2];
            d.chars[3] = cb[0];
            d.chars[4] = cb[1];
            d.chars[5] = cb[2];
            d.n_chars = 6;
            d.cells[l].a = 0;
            d.cells[l].b = la;
            r = d.add_char_list_direct(&cb[..0]);
            d.cells[r].a = 3;
            d.cells[r].b = lb;
            expect = Some(Some(lex_cmp(&[ca[0] as u32, ca[1] as u32, ca[2] as u32], la, &[cb[0] as u32, cb[1] as u32, cb[2] as u32], lb)));
        }
        4 => {
            let (la, lb) = (n.usize_below(4), n.usize_below(4));
            let ba = [n.u8(), n.u8(), n.u8()];
            let bb = [n.u8(), n.u8(), n.u8()];
            l = d.add_byte_list_direct(&ba[..0]);
            d.bytes[0] = ba[0];
            d.bytes[1] = ba[1];
            d.bytes[2] = ba[2];
            d.bytes[3] = bb[0];
            d.bytes[4] = bb[1];
            d.bytes[5] = bb[2];
            d.n_bytes = 6;
            d.cells[l].a = 0;
            d.cells[l].b = la;
            r = d.add_byte_list_direct(&bb[..0]);
            d.cells[r].a = 3;
            d.cells[r].b = lb;
            expect = Some(Some(lex_cmp(&[ba[0] as u32, ba[1] as u32, ba[2] as u32], la, &[bb[0] as u32, bb[1] as u32, bb[2] as u32], lb)));
        }
        _ => {
            // only the type tags matter for a non-comparable pair: list-like values are empty here
            let s: SD = any_state(n, 2, false, 0);
            d = s;
            l = 0;
            r = 1;
            let (lt, rt) = (d.cells[0].tag, d.cells[1].tag);
            let comparable = lt == rt && (lt == T::Number || lt == T::Char || lt == T::Byte || lt == T::CharList || lt == T::ByteList || lt == T::Slice);
            n.assume(!comparable);
        }
    }
    let mut s = finish(n, d, &[l, r], instr);
    let res = execute_current_instruction(&mut s.d);
    gv_cover!(true, "reached");
    pa!("C12", ran_ok(res));
    pa!("C06", s.d.n_regs == s.regs_before - 1 && s.d.regs[0] == s.sentinel && s.d.cursor == 1);
    pa!("C08", s.d.n_calls == 0);
    let t = s.d.cells[top(&s.d)].tag;
    match expect {
        None => pa!("C12", t == T::False),
        Some(None) => pa!("C12", t == T::Unit),
        Some(Some(o)) => {
            let want = if want_bool(instr, o) { T::True } else { T::False };
            pa!("C12", t == want);
        }
    }
}

// ------------------------------------------------------------------------------------------- C11

/// Equal / NotEqual: left operand of concrete type LT (contents symbolic, children from the fixture's base
/// cells), right operand of symbolic type or the left operand itself; all values restricted to the types
/// C11 lists; result == ref_eq, nothing left behind
pub fn equality<N: Nondet, const NEGATE: bool, const LT: usize, const RT: usize>(n: &mut N) {
    equality_leaves::<N, NEGATE, LT, RT, 20, 20>(n)
}

/// the same with the leaf cells of concrete types (the worklist of `data_equal` stays small for symex only
/// when the types it dispatches on are concrete: DESIGN.md probe 30)
pub fn equality_leaves<N: Nondet, const NEGATE: bool, const LT: usize, const RT: usize, const L0: usize, const L1: usize>(n: &mut N) {
    let instr = if NEGATE { Instruction::NotEqual } else { Instruction::Equal };
    let (mut d, left) = fixture_leaves(n, LT, L0, L1);
    // RT == 20: right operand of symbolic type; otherwise of the concrete type TAGS[RT] (the structured
    // left types traverse their operands: a symbolic right type does not finish, DESIGN.md probes 28, 30)
    let any = if RT < 20 {
        // right operand of the concrete type TAGS[RT], contents symbolic
        let i = d.n_cells;
        let c = Cell { tag: TAGS[RT], a: n.usize(), b: n.usize(), num: SimpleNumber::Integer(n.i32()), sym: n.u64(), ty: any_tag(n) };
        d.cells[i] = c;
        d.n_cells = i + 1;
        let ok = cell_valid(&d, i, 2);
        n.assume(ok);
        i
    } else {
        push_any(n, &mut d)
    };
    let right = if n.bool() { left } else { any };
    let mut i = 0;
    while i < d.n_cells {
        n.assume(listed(d.cells[i].tag));
        i += 1;
    }
    let expected = ref_eq(&d, left, right, 2);
    let mut s = finish(n, d, &[left, right], instr);
    let res = execute_current_instruction(&mut s.d);
    gv_cover!(expected == Some(true) && left != right, "equal values at different addresses");
    gv_cover!(expected == Some(false), "unequal values");
    pa!("C11", ran_ok(res));
    pa!("C11", s.d.n_regs == s.regs_before - 1 && s.d.regs[0] == s.sentinel);
    pa!("C06", s.d.cursor == 1 && s.d.n_values == s.values_before && s.d.n_frames == s.frames_before);
    let t = s.d.cells[top(&s.d)].tag;
    pa!("C11", t == T::True || t == T::False);
    match expected {
        Some(e) => {
            let want = if e != NEGATE { T::True } else { T::False };
            pa!("C11", t == want);
        }
        None => {}
    }
}

// ------------------------------------------------------------------------------------------- C16

/// C16: a list with a CONCRETE arrangement of items (SHAPE) over {number v, symbol s0, pair p0 keyed by k0, pair p1
/// keyed by k1, pair pn keyed by a number, nested list} - keys k0 != k1 symbolic u64 - and the instruction I
/// (Access / Apply / AccessLengthInternal) with a SYMBOLIC integer index or symbol. SPLIT < 4: the left operand is
/// the concatenation (first SPLIT items) <> (remaining items) instead of one list.
pub fn list_semantics<N: Nondet, const I: usize, const SHAPE: u8, const SPLIT: usize, const BY_SYMBOL: bool>(n: &mut N) {
    let instr = ALL_INSTRUCTIONS[I];
    let mut d: SD = BoundedData::new();
    let (k0, k1) = (n.u64(), n.u64());
    n.assume(k0 != k1);
    let v = d.add_number(SimpleNumber::Integer(n.i32())).unwrap();
    let s0 = d.add_symbol(k0).unwrap();
    let s1 = d.add_symbol(k1).unwrap();
    let p0 = d.add_pair((s0, v)).unwrap();
    let p1 = d.add_pair((s1, s0)).unwrap();
    let pn = d.add_pair((v, s1)).unwrap();
    let inner = d.add_list_direct(&[v]);
    let (items, len): ([usize; 3], usize) = match SHAPE {
        0 => ([0, 0, 0], 0),
        1 => ([v, 0, 0], 1),
        2 => ([p0, p1, 0], 2),
        3 => ([v, p0, s0], 3),
        4 => ([p1, pn, p0], 3),
        _ => ([inner, p0, 0], 2),
    };
    let left = if SPLIT < 4 {
        let a = d.add_list_direct(&items[..SPLIT]);
        let b = d.add_list_direct(&items[SPLIT..len]);
        d.add_concatenation(a, b).unwrap()
    } else {
        d.add_list_direct(&items[..len])
    };
    // the kind of the right operand is concrete per harness (a symbolic type tag makes every dispatch arm reachable for symex)
    let by_symbol = BY_SYMBOL;
    let idx = n.i32();
    let key = n.u64();
    let right = if by_symbol { d.add_symbol(key).unwrap() } else { d.add_number(SimpleNumber::Integer(idx)).unwrap() };
    let unary = instr == Instruction::AccessLengthInternal;
    let mut s = if unary { finish(n, d, &[left], instr) } else { finish(n, d, &[left, right], instr) };
    let res = execute_current_instruction(&mut s.d);
    gv_cover!(true, "reached");
    pa!("C16", ran_ok(res));
    pa!("C06", s.d.regs[0] == s.sentinel && s.d.cursor == 1);
    pa!("C16", s.d.n_calls == 0);
    let t = top(&s.d);
    if unary {
        pa!("C16", s.d.cells[t].tag == T::Number);
        match s.d.cells[t].num {
            SimpleNumber::Integer(x) => pa!("C16", x as usize == len),
            _ => pa!("C16", false),
        }
    } else if by_symbol {
        // the value of the pair keyed by that symbol, when the list contains one; otherwise "absent" = unit
        let mut want: Option<usize> = None;
        let mut i = 0;
        while i < 3 {
            if i < len {
                if items[i] == p0 && key == k0 {
                    want = Some(v);
                }
                if items[i] == p1 && key == k1 {
                    want = Some(s0);
                }
            }
            i += 1;
        }
        match want {
            Some(w) => pa!("C16", t == w),
            None => pa!("C16", s.d.cells[t].tag == T::Unit),
        }
    } else if idx >= 0 && (idx as usize) < len {
        pa!("C16", t == items[idx as usize]);
    } else {
        // outside 0..n-1: "no item", never an error
        pa!("C16", s.d.cells[t].tag == T::Unit && t >= s.cells_before);
    }
}

/// Equal / NotEqual on two numbers of any representation (any i32, any f64 incl. NaN, infinities, -0.0):
/// numeric equality, integers and floats mixed
pub fn equality_numbers<N: Nondet, const NEGATE: bool>(n: &mut N) {
    let instr = if NEGATE { Instruction::NotEqual } else { Instruction::Equal };
    let mut d: SD = BoundedData::new();
    let (a, b) = (any_f64_or_int(n), any_f64_or_int(n));
    let l = d.add_number(a).unwrap();
    let r = d.add_number(b).unwrap();
    let mut s = finish(n, d, &[l, r], instr);
    let res = execute_current_instruction(&mut s.d);
    gv_cover!(true, "reached");
    pa!("C11", ran_ok(res));
    pa!("C11", s.d.n_regs == s.regs_before - 1 && s.d.regs[0] == s.sentinel);
    let equal = ref_num_cmp(a, b) == Some(Ordering::Equal);
    let want = if equal != NEGATE { T::True } else { T::False };
    pa!("C11", s.d.cells[top(&s.d)].tag == want);
}

/// the four ordering instructions on a pair of operands of the concrete, non-comparable types (LT, RT)
/// (symbolic contents): false, never an error, nothing deferred
pub fn compare_mismatch<N: Nondet, const I: usize, const LT: usize, const RT: usize>(n: &mut N) {
    let instr = ALL_INSTRUCTIONS[I];
    let (mut d, left) = fixture(n, LT);
    let right = push_any(n, &mut d);
    n.assume(d.cells[right].tag == TAGS[RT]);
    let mut s = finish(n, d, &[left, right], instr);
    let res = execute_current_instruction(&mut s.d);
    gv_cover!(true, "reached");
    pa!("C12", ran_ok(res));
    pa!("C06", s.d.n_regs == s.regs_before - 1 && s.d.regs[0] == s.sentinel && s.d.cursor == 1);
    pa!("C08", s.d.n_calls == 0);
    pa!("C12", s.d.cells[top(&s.d)].tag == T::False);
}

/// C11 on fully concrete SHAPES (addresses, types, lengths concrete; only the leaf payloads symbolic):
/// the worklist algorithm of `perform_equality_check` stays tractable only when the types it dispatches on
/// are constants for symex (a type read through a symbolic address is not). 14 shapes, written out.
pub fn equality_shape<N: Nondet, const SHAPE: u8, const NEGATE: bool>(n: &mut N) {
    let instr = if NEGATE { Instruction::NotEqual } else { Instruction::Equal };
    let mut d: SD = BoundedData::new();
    let mut leaf = [0usize; 6];
    let mut i = 0;
    while i < 6 {
        leaf[i] = d.add_number(SimpleNumber::Integer(n.i32())).unwrap();
        i += 1;
    }
    let sym = d.add_symbol(n.u64()).unwrap();
    let [n0, n1, n2, n3, n4, n5] = leaf;
    let (left, right) = match SHAPE {
        0 => (d.add_pair((n0, n1)).unwrap(), d.add_pair((n2, n3)).unwrap()),
        1 => (d.add_pair((n0, n1)).unwrap(), d.add_pair((n0, n3)).unwrap()),
        2 => {
            let p = d.add_pair((n0, n1)).unwrap();
            (p, p)
        }
        3 => {
            let a = d.add_pair((n0, n1)).unwrap();
            let b = d.add_pair((n3, n4)).unwrap();
            (d.add_pair((a, n2)).unwrap(), d.add_pair((b, n5)).unwrap())
        }
        4 => (d.add_list_direct(&[n0, n1]), d.add_list_direct(&[n2, n3])),
        5 => (d.add_list_direct(&[n0, n1]), d.add_list_direct(&[n2])),
        6 => (d.add_list_direct(&[n0]), d.add_list_direct(&[n1, n2])),
        7 => (d.add_list_direct(&[]), d.add_list_direct(&[])),
        8 => {
            let l = d.add_list_direct(&[n0, n1]);
            let r0 = d.add_list_direct(&[n2]);
            (l, d.add_concatenation(r0, n3).unwrap())
        }
        9 => (d.add_concatenation(n0, n1).unwrap(), d.add_list_direct(&[n2, n3])),
        10 => {
            let a = d.add_list_direct(&[n0]);
            let b = d.add_list_direct(&[n1]);
            (d.add_concatenation(a, b).unwrap(), d.add_concatenation(n2, n3).unwrap())
        }
        11 => {
            let a = d.add_pair((n0, n1)).unwrap();
            let b = d.add_pair((n2, n3)).unwrap();
            (d.add_list_direct(&[a]), d.add_list_direct(&[b]))
        }
        12 => (d.add_pair((n0, sym)).unwrap(), d.add_pair((n2, n3)).unwrap()),
        14 => {
            // a leaf of another type in the MIDDLE: the comparison decides while item pairs are still queued
            let u = d.add_unit().unwrap();
            (d.add_list_direct(&[n0, u, n2]), d.add_list_direct(&[n3, n4, n5]))
        }
        15 => {
            let u = d.add_unit().unwrap();
            let a = d.add_pair((n0, u)).unwrap();
            let b = d.add_pair((n2, n3)).unwrap();
            (d.add_list_direct(&[a, n1]), d.add_list_direct(&[b, n4]))
        }
        _ => {
            let l = d.add_list_direct(&[n0, n1, n2]);
            let r0 = d.add_list_direct(&[n3, n4]);
            (l, d.add_concatenation(r0, n5).unwrap())
        }
    };
    let expected = ref_eq(&d, left, right, 3);
    let mut s = finish(n, d, &[left, right], instr);
    let res = execute_current_instruction(&mut s.d);
    gv_cover!(expected == Some(true) || SHAPE == 5 || SHAPE == 6 || SHAPE == 12 || SHAPE == 14 || SHAPE == 15, "equal case reachable");
    gv_cover!(expected == Some(false) || SHAPE == 2 || SHAPE == 7, "unequal case reachable");
    pa!("C11", ran_ok(res));
    pa!("C06,C11", s.d.n_regs == s.regs_before - 1 && s.d.regs[0] == s.sentinel);
    pa!("C06", s.d.cursor == 1 && s.d.n_values == s.values_before && s.d.n_frames == s.frames_before);
    let t = s.d.cells[top(&s.d)].tag;
    match expected {
        Some(e) => {
            let want = if e != NEGATE { T::True } else { T::False };
            pa!("C11", t == want);
        }
        None => pa!("C11", false),
    }
}


/// C07 / C08: casts out of a slice of a list whose range is arbitrary - forward, backwards (`4..1`), empty exclusive,
/// negative, past the end. KIND 0: slice -> List; 1: slice -> CharList; 2: range -> List. Only Kani's own checks decide
/// C07 here (a subtraction of the range ends on usize is the classic panic); C06 arity is asserted when the step is Ok.
pub fn cast_slice<N: Nondet, const KIND: u8>(n: &mut N) {
    let mut d: SD = BoundedData::new();
    let a = d.add_number(SimpleNumber::Integer(n.i32())).unwrap();
    let b = d.add_number(SimpleNumber::Integer(n.i32())).unwrap();
    let c = d.add_number(SimpleNumber::Integer(n.i32())).unwrap();
    let l = d.add_list_direct(&[a, b, c]);
    let (sv, ev) = (n.i32(), n.i32());
    gv_cover!(ev < sv, "backwards range");
    gv_cover!(sv < 0, "negative start");
    gv_cover!(sv >= 0 && ev >= sv && ev <= 2, "range inside the list");
    let s = d.add_number(SimpleNumber::Integer(sv)).unwrap();
    let e = d.add_number(SimpleNumber::Integer(ev)).unwrap();
    let r = d.add_range(s, e).unwrap();
    let sl = d.add_slice(l, r).unwrap();
    let (left, ty) = match KIND {
        0 => (sl, T::List),
        1 => (sl, T::CharList),
        _ => (r, T::List),
    };
    let t = d.add_type(ty).unwrap();
    let mut st = finish(n, d, &[left, t], Instruction::ApplyType);
    let res = execute_current_instruction(&mut st.d);
    gv_cover!(true, "reached");
    assert!(!st.d.overflowed);
    if ran_ok(res) {
        pa!("C06", st.d.n_regs == st.regs_before - 1 && st.d.regs[0] == st.sentinel);
        pa!("C06", st.d.n_values == st.values_before && st.d.n_frames == st.frames_before);
    }
}
