//! `harnesses!` — declares a group of harnesses once; expands to the Kani proofs (cfg(kani)) and
//! to a `dispatch(name, &mut ReplayNondet) -> bool` function (native).

#[macro_export]
macro_rules! harnesses {
    ( $group:ident ; $( $name:ident [ $unwind:literal ] => $body:expr ; )* ) => {
        #[cfg(kani)]
        mod $group {
            #[allow(unused_imports)]
            use crate::bodies as b;
            $(
                #[kani::proof]
                #[kani::unwind($unwind)]
                #[kani::stub(std::fmt::format, crate::stubs::format_stub)]
                #[kani::stub(std::backtrace::Backtrace::capture, crate::stubs::backtrace_stub)]
                #[kani::stub(f64::powf, crate::stubs::powf_stub)]
                #[kani::stub(std::hash::RandomState::new, crate::stubs::random_state_stub)]
                fn $name() {
                    let mut n = crate::nondet::KaniNondet;
                    ($body)(&mut n);
                }
            )*
        }

        #[cfg(not(kani))]
        pub mod $group {
            #[allow(unused_imports)]
            use crate::bodies as b;
            pub fn dispatch(name: &str, n: &mut crate::nondet::ReplayNondet) -> bool {
                match name {
                    $( stringify!($name) => { ($body)(n); true } )*
                    _ => false,
                }
            }
            pub fn dispatch_random(name: &str, n: &mut crate::nondet::RandomNondet) -> bool {
                match name {
                    $( stringify!($name) => { ($body)(n); true } )*
                    _ => false,
                }
            }
            pub fn names() -> Vec<&'static str> {
                vec![ $( stringify!($name) ),* ]
            }
        }
    };
}
