//! gv_harness: solver-checked harnesses over the real garnish-core code (path deps on /repo).
//!
//! Every harness body is ordinary Rust generic over `Nondet`; `harnesses!` registers it both as
//! a `#[kani::proof]` (inputs = `kani::any()`) and in a name -> body table used by the native
//! replay binary (inputs = the bytes of a counterexample).
#![allow(clippy::all)]
#![allow(dead_code)]

#[macro_use]
pub mod nondet;
pub mod stubs;
pub mod bounded;
pub mod state;
pub mod refmodel;
pub mod generated {
    pub mod templates;
}
#[macro_use]
pub mod registry;
pub mod bodies;
pub mod proofs;
