//! Reference evaluator over parse-node arrays (the oracle of the program-level harnesses).
//!
//! It evaluates the tree it is given (precedence is the parser's business), directly by recursion over
//! the nodes, building its values in its own arena (a second BoundedData used only as a value store).
//! It never calls the builder or the runtime. Arithmetic is done in i64. Semantics are those of the
//! language as exhibited by the pinned tree's own scripts and documented dispatch; the evaluator is
//! validated natively against the real pipeline on the unchanged tree by `selftest` on every run.
//!
//! Scope (anything else sets `unsupported`, and the harness then asserts nothing about the value):
//! integer literals, `()`, `$?`, `$!`, `$`, symbols, identifiers, arithmetic / bitwise / comparison /
//! equality / logical operators, pairs, space and comma lists, groups, `.` access on lists and pairs,
//! `_.` `._` `.|`, conditionals and else-chains, sub-expression sequencing, side-effect blocks, nested
//! expressions with apply / apply-to / empty-apply, bounded reapply.

use crate::bounded::*;
use garnish_lang_compiler::parse::{Definition as D, ParseNode};
use garnish_lang_simple_data::SimpleNumber;
use garnish_lang_traits::{GarnishData, GarnishDataType as T, Instruction};

pub const OC: usize = 40;
pub type OD = BoundedData<OC>;
pub const MAX_REAPPLY: usize = 3;
/// longest list the evaluator and the structural comparison handle (longer -> `unsupported` / unequal)
pub const MAXL: usize = 4;

#[derive(Clone, Copy)]
pub struct ExpCall {
    pub kind: HostKind,
    pub op: Instruction,
    pub sym: u64,
    pub left_type: T,
    pub right_type: T,
    pub accepted: bool,
}

pub struct Ev<'a> {
    pub nodes: &'a [ParseNode],
    pub o: OD,
    pub answers: [bool; HOST],
    pub host_vals: [i32; HOST],
    pub calls: [ExpCall; HOST],
    pub n_calls: usize,
    pub reapply: Option<usize>,
    pub unsupported: bool,
    pub fuel: usize,
}

fn int_of(c: &Cell) -> Option<i32> {
    if c.tag == T::Number {
        match c.num {
            SimpleNumber::Integer(v) => Some(v),
            SimpleNumber::Float(_) => None,
        }
    } else {
        None
    }
}

fn fit(v: i64) -> Option<i32> {
    if v >= i32::MIN as i64 && v <= i32::MAX as i64 { Some(v as i32) } else { None }
}

/// exact integer arithmetic of the language in i64; None = unit
pub fn ref_arith(def: D, a: i32, b: i32) -> Option<i32> {
    let (x, y) = (a as i64, b as i64);
    match def {
        D::Addition => fit(x + y),
        D::Subtraction => fit(x - y),
        D::MultiplicationSign => fit(x * y),
        D::Division | D::IntegerDivision => {
            if y == 0 {
                None
            } else {
                fit(x / y)
            }
        }
        D::Remainder => {
            if y == 0 || (a == i32::MIN && b == -1) {
                None
            } else {
                fit(x % y)
            }
        }
        D::ExponentialSign => {
            if y < 0 {
                None
            } else {
                let mut acc: i64 = 1;
                let mut i = 0;
                let mut ok = true;
                while i < 32 {
                    if i < y && ok {
                        acc *= x;
                        if fit(acc).is_none() {
                            ok = false;
                        }
                    }
                    i += 1;
                }
                if y >= 32 && !(a == 0 || a == 1 || a == -1) {
                    ok = false;
                }
                if y >= 32 && (a == 1 || a == 0) {
                    return Some(a);
                }
                if y >= 32 && a == -1 {
                    return Some(if y % 2 == 0 { 1 } else { -1 });
                }
                if ok { fit(acc) } else { None }
            }
        }
        D::BitwiseAnd => Some(a & b),
        D::BitwiseOr => Some(a | b),
        D::BitwiseXor => Some(a ^ b),
        D::BitwiseLeftShift => {
            if b < 0 || b > 31 {
                None
            } else {
                Some(((x << b) as u64 & 0xFFFF_FFFF) as u32 as i32)
            }
        }
        D::BitwiseRightShift => {
            if b < 0 || b > 31 {
                None
            } else {
                Some(a >> b)
            }
        }
        _ => None,
    }
}

fn arith_instruction(def: D) -> Option<Instruction> {
    Some(match def {
        D::Addition => Instruction::Add,
        D::Subtraction => Instruction::Subtract,
        D::MultiplicationSign => Instruction::Multiply,
        D::Division => Instruction::Divide,
        D::IntegerDivision => Instruction::IntegerDivide,
        D::Remainder => Instruction::Remainder,
        D::ExponentialSign => Instruction::Power,
        D::BitwiseAnd => Instruction::BitwiseAnd,
        D::BitwiseOr => Instruction::BitwiseOr,
        D::BitwiseXor => Instruction::BitwiseXor,
        D::BitwiseLeftShift => Instruction::BitwiseShiftLeft,
        D::BitwiseRightShift => Instruction::BitwiseShiftRight,
        _ => return None,
    })
}

pub fn falsy(t: T) -> bool {
    t == T::Unit || t == T::False
}

impl<'a> Ev<'a> {
    pub fn new(nodes: &'a [ParseNode], lits: [SimpleNumber; LITS], syms: [u64; SYMS], answers: [bool; HOST], host_vals: [i32; HOST]) -> Self {
        let mut o: OD = BoundedData::new();
        o.lits = lits;
        o.syms = syms;
        Ev {
            nodes,
            o,
            answers,
            host_vals,
            calls: [ExpCall { kind: HostKind::Resolve, op: Instruction::Invalid, sym: 0, left_type: T::Invalid, right_type: T::Invalid, accepted: false }; HOST],
            n_calls: 0,
            reapply: None,
            unsupported: false,
            fuel: 64,
        }
    }

    fn tag(&self, a: usize) -> T {
        self.o.cells[a].tag
    }

    fn unit(&mut self) -> usize {
        self.o.add_unit().unwrap()
    }

    fn boolean(&mut self, b: bool) -> usize {
        if b { self.o.add_true().unwrap() } else { self.o.add_false().unwrap() }
    }

    fn host(&mut self, kind: HostKind, op: Instruction, sym: u64, lt: T, rt: T) -> usize {
        if self.n_calls >= HOST {
            self.unsupported = true;
            return self.unit();
        }
        let i = self.n_calls;
        let accepted = self.answers[i];
        self.calls[i] = ExpCall { kind, op, sym, left_type: lt, right_type: rt, accepted };
        self.n_calls += 1;
        if accepted { self.o.add_number(SimpleNumber::Integer(self.host_vals[i])).unwrap() } else { self.unit() }
    }

    fn sym_of_text(&self, text: &str) -> u64 {
        let b = text.as_bytes();
        let mut i = 0;
        while i < b.len() {
            if b[i] >= b'a' && b[i] < b'a' + SYMS as u8 {
                return self.o.syms[(b[i] - b'a') as usize];
            }
            i += 1;
        }
        0
    }

    /// value of the pair keyed by `sym` inside `val` (a keyed pair, or a list containing one); None = no such association
    fn lookup_sym(&self, val: usize, sym: u64) -> Option<usize> {
        let c = self.o.cells[val];
        match c.tag {
            T::Pair => {
                let l = self.o.cells[c.a];
                if l.tag == T::Symbol && l.sym == sym { Some(c.b) } else { None }
            }
            T::List => {
                let mut found = None;
                let mut i = 0;
                while i < MAXL {
                    if i < c.b {
                        let item = self.o.items[c.a + i];
                        let ic = self.o.cells[item];
                        if ic.tag == T::Pair {
                            let l = self.o.cells[ic.a];
                            if l.tag == T::Symbol && l.sym == sym {
                                found = Some(ic.b);
                            }
                        }
                    }
                    i += 1;
                }
                found
            }
            _ => None,
        }
    }

    fn index(&mut self, val: usize, idx: i32) -> Option<usize> {
        let c = self.o.cells[val];
        match c.tag {
            T::Pair => {
                let l = self.o.cells[c.a];
                if idx == 0 && l.tag == T::Symbol { Some(val) } else { None }
            }
            T::List => {
                if idx < 0 {
                    None
                } else if (idx as usize) < c.b {
                    Some(self.o.items[c.a + idx as usize])
                } else {
                    // outside the list: "no item" -> unit value
                    Some(self.unit())
                }
            }
            _ => None,
        }
    }

    /// structural equality inside the arena (scalars, pairs, lists)
    pub fn equal(&self, a: usize, b: usize, depth: usize) -> bool {
        let (x, y) = (self.o.cells[a], self.o.cells[b]);
        if x.tag != y.tag {
            return false;
        }
        match x.tag {
            T::Unit | T::True | T::False => true,
            T::Number => match (x.num, y.num) {
                (SimpleNumber::Integer(p), SimpleNumber::Integer(q)) => p == q,
                _ => false,
            },
            T::Symbol => x.sym == y.sym,
            T::Expression => x.a == y.a,
            T::Pair => depth > 0 && self.equal(x.a, y.a, depth - 1) && self.equal(x.b, y.b, depth - 1),
            T::List => {
                if x.b != y.b || depth == 0 || x.b > MAXL {
                    return false;
                }
                let mut i = 0;
                let mut ok = true;
                while i < MAXL {
                    if i < x.b && ok && !self.equal(self.o.items[x.a + i], self.o.items[y.a + i], depth - 1) {
                        ok = false;
                    }
                    i += 1;
                }
                ok
            }
            _ => false,
        }
    }

    /// run an expression body with input `arg`, following reapply up to MAX_REAPPLY times
    pub fn call(&mut self, body: usize, arg: usize) -> usize {
        let mut cur = arg;
        let mut iter = 0;
        loop {
            let r = self.eval(body, &mut cur);
            match self.reapply.take() {
                Some(v) => {
                    cur = v;
                    iter += 1;
                    if iter > MAX_REAPPLY {
                        self.unsupported = true;
                        return r;
                    }
                }
                None => return r,
            }
        }
    }

    fn collect_list(&mut self, node: usize, def: D, cur: &mut usize, out: &mut [usize; ITEMS], n: &mut usize) {
        // same-kind list nodes nested directly are one list; anything else is an item
        let nd = &self.nodes[node];
        if nd.get_definition() == def {
            let (l, r) = (nd.get_left(), nd.get_right());
            if let Some(l) = l {
                self.collect_list(l, def, cur, out, n);
            }
            if self.reapply.is_some() {
                return;
            }
            if let Some(r) = r {
                self.collect_list(r, def, cur, out, n);
            }
        } else {
            let v = self.eval(node, cur);
            if *n < ITEMS {
                out[*n] = v;
                *n += 1;
            } else {
                self.unsupported = true;
            }
        }
    }

    pub fn eval(&mut self, node: usize, cur: &mut usize) -> usize {
        if self.fuel == 0 || node >= self.nodes.len() {
            self.unsupported = true;
            return self.unit();
        }
        self.fuel -= 1;
        let nd = &self.nodes[node];
        let def = nd.get_definition();
        let (left, right) = (nd.get_left(), nd.get_right());

        // a side-effect block hangs off a value node as its left or right child
        let value_like = def.is_value_like();
        if value_like {
            if let Some(l) = left {
                self.side_effect_child(l, cur);
            }
        }
        let result = match def {
            D::Number => {
                let b = nd.text().as_bytes();
                if b.len() == 1 && b[0] >= b'0' && b[0] <= b'9' {
                    self.o.add_number(self.o.lits[(b[0] - b'0') as usize]).unwrap()
                } else {
                    self.unsupported = true;
                    self.unit()
                }
            }
            D::Unit => self.unit(),
            D::True => self.boolean(true),
            D::False => self.boolean(false),
            D::Value => *cur,
            D::Symbol => {
                let s = self.sym_of_text(&nd.text()[1..]);
                self.o.add_symbol(s).unwrap()
            }
            D::Property => {
                let s = self.sym_of_text(nd.text());
                self.o.add_symbol(s).unwrap()
            }
            D::Identifier => {
                let s = self.sym_of_text(nd.text());
                match self.lookup_sym(*cur, s) {
                    Some(v) => v,
                    None => self.host(HostKind::Resolve, Instruction::Resolve, s, T::Invalid, T::Invalid),
                }
            }
            D::Group => match right {
                Some(r) => self.eval(r, cur),
                None => {
                    self.unsupported = true;
                    self.unit()
                }
            },
            D::Addition | D::Subtraction | D::MultiplicationSign | D::Division | D::IntegerDivision | D::Remainder | D::ExponentialSign | D::BitwiseAnd | D::BitwiseOr | D::BitwiseXor | D::BitwiseLeftShift | D::BitwiseRightShift => {
                let (l, r) = match (left, right) {
                    (Some(l), Some(r)) => (l, r),
                    _ => {
                        self.unsupported = true;
                        return self.unit();
                    }
                };
                let a = self.eval(l, cur);
                if self.reapply.is_some() {
                    return a;
                }
                let b = self.eval(r, cur);
                if self.reapply.is_some() {
                    return b;
                }
                let (ca, cb) = (self.o.cells[a], self.o.cells[b]);
                match (int_of(&ca), int_of(&cb)) {
                    (Some(x), Some(y)) => match ref_arith(def, x, y) {
                        Some(v) => self.o.add_number(SimpleNumber::Integer(v)).unwrap(),
                        None => self.unit(),
                    },
                    _ => {
                        if ca.tag == T::Number && cb.tag == T::Number {
                            self.unsupported = true; // floats are outside the evaluator
                            self.unit()
                        } else {
                            self.host(HostKind::DeferOp, arith_instruction(def).unwrap(), 0, ca.tag, cb.tag)
                        }
                    }
                }
            }
            D::Opposite | D::AbsoluteValue | D::BitwiseNot => {
                let r = match right {
                    Some(r) => r,
                    None => {
                        self.unsupported = true;
                        return self.unit();
                    }
                };
                let a = self.eval(r, cur);
                if self.reapply.is_some() {
                    return a;
                }
                let ca = self.o.cells[a];
                match int_of(&ca) {
                    Some(x) => {
                        let v = match def {
                            D::Opposite => fit(-(x as i64)),
                            D::AbsoluteValue => fit((x as i64).abs()),
                            _ => Some(!x),
                        };
                        match v {
                            Some(v) => self.o.add_number(SimpleNumber::Integer(v)).unwrap(),
                            None => self.unit(),
                        }
                    }
                    None => {
                        let op = match def {
                            D::Opposite => Instruction::Opposite,
                            D::AbsoluteValue => Instruction::AbsoluteValue,
                            _ => Instruction::BitwiseNot,
                        };
                        self.host(HostKind::DeferOp, op, 0, ca.tag, T::Unit)
                    }
                }
            }
            D::LessThan | D::LessThanOrEqual | D::GreaterThan | D::GreaterThanOrEqual | D::Equality | D::Inequality | D::Xor | D::TypeEqual => {
                let (l, r) = match (left, right) {
                    (Some(l), Some(r)) => (l, r),
                    _ => {
                        self.unsupported = true;
                        return self.unit();
                    }
                };
                let a = self.eval(l, cur);
                if self.reapply.is_some() {
                    return a;
                }
                let b = self.eval(r, cur);
                if self.reapply.is_some() {
                    return b;
                }
                let (ca, cb) = (self.o.cells[a], self.o.cells[b]);
                let res = match def {
                    D::Equality => self.equal(a, b, 3),
                    D::Inequality => !self.equal(a, b, 3),
                    D::Xor => falsy(ca.tag) != falsy(cb.tag),
                    D::TypeEqual => ca.tag == cb.tag,
                    _ => match (int_of(&ca), int_of(&cb)) {
                        (Some(x), Some(y)) => match def {
                            D::LessThan => x < y,
                            D::LessThanOrEqual => x <= y,
                            D::GreaterThan => x > y,
                            _ => x >= y,
                        },
                        _ => {
                            if ca.tag == T::Number && cb.tag == T::Number {
                                self.unsupported = true;
                            }
                            if ca.tag == cb.tag && (ca.tag == T::Char || ca.tag == T::Byte || ca.tag == T::CharList || ca.tag == T::ByteList) {
                                self.unsupported = true;
                            }
                            false
                        }
                    },
                };
                self.boolean(res)
            }
            D::Not | D::Tis => {
                let r = match right {
                    Some(r) => r,
                    None => {
                        self.unsupported = true;
                        return self.unit();
                    }
                };
                let a = self.eval(r, cur);
                if self.reapply.is_some() {
                    return a;
                }
                let f = falsy(self.tag(a));
                self.boolean(if def == D::Not { f } else { !f })
            }
            D::And | D::Or => {
                let (l, r) = match (left, right) {
                    (Some(l), Some(r)) => (l, r),
                    _ => {
                        self.unsupported = true;
                        return self.unit();
                    }
                };
                let a = self.eval(l, cur);
                if self.reapply.is_some() {
                    return a;
                }
                let truthy = !falsy(self.tag(a));
                let decided = if def == D::And { !truthy } else { truthy };
                if decided {
                    self.boolean(def == D::Or)
                } else {
                    let b = self.eval(r, cur);
                    if self.reapply.is_some() {
                        return b;
                    }
                    let t = !falsy(self.tag(b));
                    self.boolean(t)
                }
            }
            D::Pair | D::ApplyTo => {
                // the builder evaluates the RIGHT operand of these two first
                let (l, r) = match (left, right) {
                    (Some(l), Some(r)) => (l, r),
                    _ => {
                        self.unsupported = true;
                        return self.unit();
                    }
                };
                let b = self.eval(r, cur);
                if self.reapply.is_some() {
                    return b;
                }
                let a = self.eval(l, cur);
                if self.reapply.is_some() {
                    return a;
                }
                if def == D::Pair { self.o.add_pair((a, b)).unwrap() } else { self.apply(b, a, Instruction::Apply) }
            }
            D::Apply => {
                let (l, r) = match (left, right) {
                    (Some(l), Some(r)) => (l, r),
                    _ => {
                        self.unsupported = true;
                        return self.unit();
                    }
                };
                let f = self.eval(l, cur);
                if self.reapply.is_some() {
                    return f;
                }
                let x = self.eval(r, cur);
                if self.reapply.is_some() {
                    return x;
                }
                self.apply(f, x, Instruction::Apply)
            }
            D::EmptyApply => {
                let l = match left {
                    Some(l) => l,
                    None => {
                        self.unsupported = true;
                        return self.unit();
                    }
                };
                let f = self.eval(l, cur);
                if self.reapply.is_some() {
                    return f;
                }
                let u = self.unit();
                self.apply(f, u, Instruction::EmptyApply)
            }
            D::NestedExpression => match right {
                Some(r) => self.o.add_expression(r).unwrap(),
                None => {
                    self.unsupported = true;
                    self.unit()
                }
            },
            D::List | D::CommaList => {
                let mut items = [0usize; ITEMS];
                let mut n = 0usize;
                self.collect_list(node, def, cur, &mut items, &mut n);
                if self.reapply.is_some() {
                    return *cur;
                }
                let mut li = self.o.start_list(n).unwrap();
                let mut i = 0;
                while i < n {
                    li = self.o.add_to_list(li, items[i]).unwrap();
                    i += 1;
                }
                self.o.end_list(li).unwrap()
            }
            D::Access => {
                let (l, r) = match (left, right) {
                    (Some(l), Some(r)) => (l, r),
                    _ => {
                        self.unsupported = true;
                        return self.unit();
                    }
                };
                let a = self.eval(l, cur);
                if self.reapply.is_some() {
                    return a;
                }
                let b = self.eval(r, cur);
                if self.reapply.is_some() {
                    return b;
                }
                self.access(a, b)
            }
            D::AccessLeftInternal | D::AccessRightInternal | D::AccessLengthInternal => {
                let child = if def == D::AccessLeftInternal { right } else { left };
                let c = match child {
                    Some(c) => c,
                    None => {
                        self.unsupported = true;
                        return self.unit();
                    }
                };
                let a = self.eval(c, cur);
                if self.reapply.is_some() {
                    return a;
                }
                let ca = self.o.cells[a];
                match (def, ca.tag) {
                    (D::AccessLeftInternal, T::Pair) => ca.a,
                    (D::AccessRightInternal, T::Pair) => ca.b,
                    (D::AccessLengthInternal, T::List) => self.o.add_number(SimpleNumber::Integer(ca.b as i32)).unwrap(),
                    (D::AccessLengthInternal, T::Pair) => {
                        if self.o.cells[ca.a].tag == T::Symbol {
                            self.o.add_number(SimpleNumber::Integer(1)).unwrap()
                        } else {
                            self.unit()
                        }
                    }
                    (_, T::Range) | (_, T::Slice) | (_, T::Concatenation) | (_, T::CharList) | (_, T::ByteList) => {
                        self.unsupported = true;
                        self.unit()
                    }
                    _ => {
                        let op = match def {
                            D::AccessLeftInternal => Instruction::AccessLeftInternal,
                            D::AccessRightInternal => Instruction::AccessRightInternal,
                            _ => Instruction::AccessLengthInternal,
                        };
                        self.host(HostKind::DeferOp, op, 0, ca.tag, T::Unit)
                    }
                }
            }
            D::JumpIfTrue | D::JumpIfFalse => {
                // a conditional on its own: the arm when selected, otherwise the current value
                let (l, r) = match (left, right) {
                    (Some(l), Some(r)) => (l, r),
                    _ => {
                        self.unsupported = true;
                        return self.unit();
                    }
                };
                let c = self.eval(l, cur);
                if self.reapply.is_some() {
                    return c;
                }
                let truthy = !falsy(self.tag(c));
                let take = if def == D::JumpIfTrue { truthy } else { !truthy };
                if take { self.eval(r, cur) } else { *cur }
            }
            D::ElseJump => {
                let mut taken = None;
                let done = self.else_chain(node, cur, &mut taken);
                if self.reapply.is_some() {
                    return *cur;
                }
                match (done, taken) {
                    (_, Some(v)) => v,
                    // no arm selected and no default: the current value, as for a lone conditional
                    _ => *cur,
                }
            }
            D::Subexpression | D::ExpressionSeparator => {
                let (l, r) = match (left, right) {
                    (Some(l), Some(r)) => (l, r),
                    _ => {
                        self.unsupported = true;
                        return self.unit();
                    }
                };
                let a = self.eval(l, cur);
                if self.reapply.is_some() {
                    return a;
                }
                *cur = a;
                self.eval(r, cur)
            }
            D::Reapply => {
                let r = match right {
                    Some(r) => r,
                    None => {
                        self.unsupported = true;
                        return self.unit();
                    }
                };
                let v = self.eval(r, cur);
                if self.reapply.is_none() {
                    self.reapply = Some(v);
                }
                v
            }
            _ => {
                self.unsupported = true;
                self.unit()
            }
        };
        if value_like && self.reapply.is_none() {
            if let Some(r) = right {
                self.side_effect_child(r, cur);
            }
        }
        result
    }

    fn side_effect_child(&mut self, child: usize, cur: &mut usize) {
        let nd = &self.nodes[child];
        if nd.get_definition() == D::SideEffect {
            if let Some(body) = nd.get_right() {
                // its own copy of the current value; result discarded
                let mut inner = *cur;
                self.eval(body, &mut inner);
                if self.reapply.is_some() {
                    self.unsupported = true;
                }
            }
        } else {
            self.unsupported = true;
        }
    }

    /// walks `c1 ?> a |> c2 ?> b |> d`; returns true when an arm or the default produced `taken`
    fn else_chain(&mut self, node: usize, cur: &mut usize, taken: &mut Option<usize>) -> bool {
        let nd = &self.nodes[node];
        let def = nd.get_definition();
        match def {
            D::ElseJump => {
                let (l, r) = match (nd.get_left(), nd.get_right()) {
                    (Some(l), Some(r)) => (l, r),
                    _ => {
                        self.unsupported = true;
                        return true;
                    }
                };
                if self.else_chain(l, cur, taken) || self.reapply.is_some() {
                    return true;
                }
                self.else_chain(r, cur, taken)
            }
            D::JumpIfTrue | D::JumpIfFalse => {
                let (l, r) = match (nd.get_left(), nd.get_right()) {
                    (Some(l), Some(r)) => (l, r),
                    _ => {
                        self.unsupported = true;
                        return true;
                    }
                };
                let c = self.eval(l, cur);
                if self.reapply.is_some() {
                    return true;
                }
                let truthy = !falsy(self.tag(c));
                let take = if def == D::JumpIfTrue { truthy } else { !truthy };
                if take {
                    let v = self.eval(r, cur);
                    *taken = Some(v);
                    true
                } else {
                    false
                }
            }
            _ => {
                // default arm
                let v = self.eval(node, cur);
                *taken = Some(v);
                true
            }
        }
    }

    fn access(&mut self, a: usize, b: usize) -> usize {
        let (ca, cb) = (self.o.cells[a], self.o.cells[b]);
        match (ca.tag, cb.tag) {
            (T::Pair, T::Symbol) | (T::List, T::Symbol) => match self.lookup_sym(a, cb.sym) {
                Some(v) => v,
                None => self.unit(),
            },
            (T::Pair, T::Number) | (T::List, T::Number) => match int_of(&cb) {
                Some(i) => match self.index(a, i) {
                    Some(v) => v,
                    None => self.unit(),
                },
                None => {
                    self.unsupported = true;
                    self.unit()
                }
            },
            (T::Symbol, T::Symbol) | (T::Symbol, T::Number) | (T::Number, T::Symbol) | (T::SymbolList, _) | (_, T::SymbolList) => {
                self.unsupported = true; // symbol lists are outside the evaluator
                self.unit()
            }
            (T::CharList, _) | (T::ByteList, _) | (T::Range, _) | (T::Concatenation, _) | (T::Slice, _) => {
                self.unsupported = true;
                self.unit()
            }
            _ => self.host(HostKind::DeferOp, Instruction::Access, 0, ca.tag, cb.tag),
        }
    }

    fn apply(&mut self, f: usize, x: usize, instr: Instruction) -> usize {
        let (cf, cx) = (self.o.cells[f], self.o.cells[x]);
        match (cf.tag, cx.tag) {
            (T::Expression, _) => self.call(cf.a, x),
            (T::List, T::Number) | (T::Pair, T::Number) if instr == Instruction::Apply => match int_of(&cx) {
                Some(i) => match self.index(f, i) {
                    Some(v) => v,
                    None => self.unit(),
                },
                None => {
                    self.unsupported = true;
                    self.unit()
                }
            },
            (T::List, T::Symbol) | (T::Pair, T::Symbol) if instr == Instruction::Apply => match self.lookup_sym(f, cx.sym) {
                Some(v) => v,
                None => self.unit(),
            },
            (T::External, _) | (T::Partial, _) | (T::SymbolList, _) | (_, T::SymbolList) | (_, T::Range) | (T::Range, _) | (T::Slice, _) => {
                self.unsupported = true;
                self.unit()
            }
            _ => self.host(HostKind::DeferOp, instr, 0, cf.tag, cx.tag),
        }
    }
}

/// structural comparison of a value in the data object under test with a value in the oracle's arena
pub fn same_value<const C: usize>(d: &BoundedData<C>, a: usize, o: &OD, b: usize, depth: usize) -> bool {
    if a >= d.n_cells || b >= o.n_cells {
        return false;
    }
    let (x, y) = (d.cells[a], o.cells[b]);
    if x.tag != y.tag {
        return false;
    }
    match x.tag {
        T::Unit | T::True | T::False => true,
        T::Number => match (x.num, y.num) {
            (SimpleNumber::Integer(p), SimpleNumber::Integer(q)) => p == q,
            (SimpleNumber::Float(p), SimpleNumber::Float(q)) => p == q,
            _ => false,
        },
        T::Symbol => x.sym == y.sym,
        // an expression value: the data object holds a jump-table index, the oracle a node index
        T::Expression => true,
        T::Pair => depth > 0 && same_value(d, x.a, o, y.a, depth - 1) && same_value(d, x.b, o, y.b, depth - 1),
        T::List => {
            if x.b != y.b || depth == 0 || x.b > MAXL {
                return false;
            }
            let mut i = 0;
            let mut ok = true;
            while i < MAXL {
                if i < x.b && ok && !same_value(d, d.items[x.a + i], o, o.items[y.a + i], depth - 1) {
                    ok = false;
                }
                i += 1;
            }
            ok
        }
        _ => false,
    }
}
