//! Native self-test of the oracles: runs harness bodies with pseudo-random concrete inputs on the real
//! build. `selftest <name-prefix> <samples>`. A panic other than a violated assumption means that the
//! oracle and the real code disagree on a concrete input (printed with the seed) — used to validate the
//! reference models on the unchanged tree; it never decides a property.
#[cfg(kani)]
fn main() {}

#[cfg(not(kani))]
fn main() {
    use gv_harness::nondet::{AssumptionViolated, RandomNondet};
    let args: Vec<String> = std::env::args().collect();
    let prefix = args.get(1).cloned().unwrap_or_default();
    let samples: u64 = args.get(2).and_then(|s| s.parse().ok()).unwrap_or(200);
    std::panic::set_hook(Box::new(|_| {}));
    let mut bad = 0;
    for name in gv_harness::proofs::all_names() {
        if !name.starts_with(&prefix) {
            continue;
        }
        let (mut ran, mut skipped, mut failed) = (0, 0, 0);
        let mut first_fail = None;
        for seed in 1..=samples {
            let nm = name.to_string();
            let r = std::panic::catch_unwind(move || {
                let mut n = RandomNondet::new(seed);
                gv_harness::proofs::dispatch_any(&nm, &mut n)
            });
            match r {
                Ok(_) => ran += 1,
                Err(p) => {
                    if p.downcast_ref::<AssumptionViolated>().is_some() {
                        skipped += 1;
                    } else {
                        failed += 1;
                        if first_fail.is_none() {
                            let msg = p.downcast_ref::<String>().cloned().or_else(|| p.downcast_ref::<&str>().map(|s| s.to_string())).unwrap_or_default();
                            first_fail = Some((seed, msg));
                        }
                    }
                }
            }
        }
        println!("{:50} ran {:4} skipped {:4} FAILED {:4} {}", name, ran, skipped, failed, first_fail.map(|(s, m)| format!("first seed {} : {}", s, m)).unwrap_or_default());
        if failed > 0 {
            bad += 1;
        }
    }
    std::process::exit(if bad > 0 { 1 } else { 0 });
}
