//! Native search for a concrete witness AFTER the solver has reported a failed check of a harness:
//! `witness_search <harness> <max-seeds> <property-id> <out.json>`.
//! Runs the harness body with pseudo-random inputs on the real build; the first run that panics with a message
//! attributed to <property-id> (a `pa!` tag naming it) or with no tag at all (a panic inside the code under test)
//! is written out in the replay format. The verdict is the solver's; this only replaces the slow second solver run
//! (concrete playback) when the failure is easy to hit. exit 0: witness written; 1: none found.
#[cfg(kani)]
fn main() {}

#[cfg(not(kani))]
fn main() {
    use gv_harness::nondet::{AssumptionViolated, RandomNondet};
    let args: Vec<String> = std::env::args().collect();
    if args.len() != 5 {
        eprintln!("usage: witness_search <harness> <max-seeds> <property-id> <out.json>");
        std::process::exit(4);
    }
    let name = args[1].clone();
    let max: u64 = args[2].parse().unwrap_or(2000);
    let prop = args[3].clone();
    std::panic::set_hook(Box::new(|_| {}));
    let t0 = std::time::Instant::now();
    for seed in 1..=max {
        if t0.elapsed().as_secs() > 90 {
            break;
        }
        let nm = name.clone();
        let n = RandomNondet::new(seed);
        let log = n.log.clone();
        let r = std::panic::catch_unwind(move || {
            let mut n = n;
            gv_harness::proofs::dispatch_any(&nm, &mut n)
        });
        if let Err(p) = r {
            if p.downcast_ref::<AssumptionViolated>().is_some() {
                continue;
            }
            let msg = p.downcast_ref::<String>().cloned().or_else(|| p.downcast_ref::<&str>().map(|s| s.to_string())).unwrap_or_default();
            let tagged = msg.starts_with("[C");
            let tag_end = msg.find(']').unwrap_or(0);
            let mine = !tagged || msg[..tag_end].contains(&prop);
            if !mine {
                continue;
            }
            let vals = log.lock().map(|l| l.clone()).unwrap_or_default();
            let mut out = String::new();
            out.push_str(&format!("{{\n \"harness\": \"{}\",\n \"found_by\": \"native search, seed {}\",\n \"message\": {:?},\n \"values\": [", name, seed, msg));
            for (i, v) in vals.iter().enumerate() {
                if i > 0 {
                    out.push_str(", ");
                }
                out.push('[');
                out.push_str(&v.iter().map(|b| b.to_string()).collect::<Vec<_>>().join(", "));
                out.push(']');
            }
            out.push_str("]\n}\n");
            std::fs::write(&args[4], out).expect("write witness");
            println!("seed {} : {}", seed, msg);
            std::process::exit(0);
        }
    }
    std::process::exit(1);
}
