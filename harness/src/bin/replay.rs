//! Native replay of a counterexample: `replay <harness> <witness.json>`
//! witness.json: {"harness": "...", "values": [[bytes], ...]} — the byte vectors of Kani's
//! concrete playback, one per `kani::any()` call, in call order.
//! exit 0: body completed (no violation reproduced); exit 101/1: body panicked (violation
//! reproduced); exit 3: an assumption of the harness does not hold for the witness; exit 4: usage.

#[cfg(kani)]
fn main() {}

#[cfg(not(kani))]
use gv_harness::nondet::{AssumptionViolated, ReplayNondet};
#[cfg(not(kani))]
use std::panic;

#[cfg(not(kani))]
fn parse_values(text: &str) -> Vec<Vec<u8>> {
    // minimal JSON reader for "values": [[1,2],[3]]
    let key = "\"values\"";
    let start = text.find(key).expect("no values key");
    let rest = &text[start + key.len()..];
    let open = rest.find('[').expect("no values array");
    let mut depth = 0i32;
    let mut out: Vec<Vec<u8>> = vec![];
    let mut cur: Vec<u8> = vec![];
    let mut num = String::new();
    for ch in rest[open..].chars() {
        match ch {
            '[' => {
                depth += 1;
                if depth == 2 {
                    cur = vec![];
                }
            }
            ']' => {
                if !num.is_empty() {
                    cur.push(num.parse::<u16>().expect("byte") as u8);
                    num.clear();
                }
                if depth == 2 {
                    out.push(cur.clone());
                }
                depth -= 1;
                if depth == 0 {
                    break;
                }
            }
            ',' => {
                if !num.is_empty() {
                    cur.push(num.parse::<u16>().expect("byte") as u8);
                    num.clear();
                }
            }
            c if c.is_ascii_digit() => num.push(c),
            _ => {}
        }
    }
    out
}

#[cfg(not(kani))]
fn main() {
    let args: Vec<String> = std::env::args().collect();
    if args.len() == 2 && args[1] == "--list" {
        for n in gv_harness::proofs::all_names() {
            println!("{}", n);
        }
        return;
    }
    if args.len() != 3 {
        eprintln!("usage: replay <harness> <witness.json> | replay --list");
        std::process::exit(4);
    }
    let text = std::fs::read_to_string(&args[2]).expect("read witness");
    let values = parse_values(&text);
    let name = args[1].clone();
    let result = panic::catch_unwind(move || {
        let mut n = ReplayNondet::new(values);
        let known = gv_harness::proofs::dispatch(&name, &mut n);
        (known, n.exhausted)
    });
    match result {
        Ok((false, _)) => {
            eprintln!("unknown harness");
            std::process::exit(4);
        }
        Ok((true, exhausted)) => {
            println!("REPLAY: body completed without violation{}", if exhausted { " (witness shorter than the body's draws)" } else { "" });
            std::process::exit(0);
        }
        Err(payload) => {
            if payload.downcast_ref::<AssumptionViolated>().is_some() {
                println!("REPLAY: assumption violated by witness");
                std::process::exit(3);
            }
            println!("REPLAY: violation reproduced (panic)");
            std::process::exit(1);
        }
    }
}
