//! Native exploration aid (not part of any check): `explore '<source>' [input-int]`
//! runs lex -> parse -> build -> execute on the real SimpleGarnishData and BasicGarnishData and prints
//! the parse tree, the instructions and the final value.
#[cfg(kani)]
fn main() {}

#[cfg(not(kani))]
fn main() {
    use garnish_lang_compiler::build::build;
    use garnish_lang_compiler::lex::lex;
    use garnish_lang_compiler::parse::parse;
    use garnish_lang_runtime::{SimpleRuntimeState, execute_current_instruction};
    use garnish_lang_simple_data::SimpleGarnishData;
    use garnish_lang_traits::GarnishData;
    let args: Vec<String> = std::env::args().collect();
    let src = args[1].replace("\\n", "\n");
    let tokens = match lex(&src) {
        Ok(t) => t,
        Err(e) => {
            println!("LEX ERROR {:?}", e);
            return;
        }
    };
    let parsed = match parse(&tokens) {
        Ok(t) => t,
        Err(e) => {
            println!("PARSE ERROR {:?}", e);
            return;
        }
    };
    println!("root {}", parsed.get_root());
    for (i, n) in parsed.get_nodes().iter().enumerate() {
        println!("  node {} {:?} l={:?} r={:?} p={:?} text={:?}", i, n.get_definition(), n.get_left(), n.get_right(), n.get_parent(), n.text());
    }
    let mut data = SimpleGarnishData::new();
    let b = match build(parsed.get_root(), parsed.get_nodes().clone(), &mut data) {
        Ok(b) => b,
        Err(e) => {
            println!("BUILD ERROR {:?}", e);
            return;
        }
    };
    for i in 0..data.get_instruction_len() {
        println!("  instr {} {:?}", i, data.get_instruction(i));
    }
    for i in 0..data.get_jump_table_len() {
        println!("  jump {} -> {:?}", i, data.get_from_jump_table(i));
    }
    let start = data.get_from_jump_table(*b.jump_index()).unwrap();
    data.set_instruction_cursor(start).unwrap();
    let input = if args.len() > 2 { data.add_number(args[2].parse::<i32>().unwrap().into()).unwrap() } else { data.add_unit().unwrap() };
    data.push_value_stack(input).unwrap();
    let mut steps = 0;
    loop {
        match execute_current_instruction(&mut data) {
            Err(e) => {
                println!("RUNTIME ERROR at {} {:?}", data.get_instruction_cursor(), e);
                break;
            }
            Ok(i) => {
                if i.get_state() == SimpleRuntimeState::End {
                    break;
                }
            }
        }
        steps += 1;
        if steps > 200 {
            println!("STEP LIMIT");
            break;
        }
    }
    let v = data.get_current_value();
    println!("steps {} regs {} values {} result addr {:?} = {}", steps, data.get_register_len(), data.get_value_stack_len(), v, v.map(|a| data.get_data().display_for_item(a)).unwrap_or_default());
}
