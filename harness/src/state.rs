//! `any_state` — the one validity predicate of the (R) harnesses: a symbolic pre-state of k data
//! cells with symbolic type tags, payloads and links, as the runtime can build them:
//! links point strictly downwards (every value is built from existing ones, so the graph is
//! acyclic), range ends are numbers, a slice is (sliceable value, range), list / char list / byte
//! list / symbol list extents lie inside their pools, characters are valid scalar values, floats
//! are finite (no operation produces a non-finite float — that is C09's subject).

use crate::bounded::*;
use crate::nondet::Nondet;
use garnish_lang_simple_data::SimpleNumber;
use garnish_lang_traits::{GarnishData, GarnishDataType, Instruction};

pub const TAGS: [GarnishDataType; 20] = [
    GarnishDataType::Unit,
    GarnishDataType::Number,
    GarnishDataType::Type,
    GarnishDataType::Char,
    GarnishDataType::CharList,
    GarnishDataType::Byte,
    GarnishDataType::ByteList,
    GarnishDataType::Symbol,
    GarnishDataType::SymbolList,
    GarnishDataType::Pair,
    GarnishDataType::Range,
    GarnishDataType::Concatenation,
    GarnishDataType::Slice,
    GarnishDataType::Partial,
    GarnishDataType::List,
    GarnishDataType::Expression,
    GarnishDataType::External,
    GarnishDataType::True,
    GarnishDataType::False,
    GarnishDataType::Custom,
];

pub fn tag_index(t: GarnishDataType) -> usize {
    let mut i = 0;
    while i < 20 {
        if TAGS[i] == t {
            return i;
        }
        i += 1;
    }
    20
}

pub fn any_tag<N: Nondet>(n: &mut N) -> GarnishDataType {
    TAGS[n.below(20) as usize]
}

pub fn any_char<N: Nondet>(n: &mut N) -> char {
    let v = n.u32();
    n.assume(v < 0xD800 || (v >= 0xE000 && v <= 0x10FFFF));
    char::from_u32(v).unwrap_or('\0')
}

pub fn any_number<N: Nondet>(n: &mut N, floats: bool) -> SimpleNumber {
    if floats {
        if n.bool() { SimpleNumber::Float(n.finite_f64()) } else { SimpleNumber::Integer(n.i32()) }
    } else {
        SimpleNumber::Integer(n.i32())
    }
}

pub const ALL_INSTRUCTIONS: [Instruction; 56] = [
    Instruction::Invalid,
    Instruction::Put,
    Instruction::PutValue,
    Instruction::PushValue,
    Instruction::UpdateValue,
    Instruction::JumpTo,
    Instruction::EndExpression,
    Instruction::Add,
    Instruction::Subtract,
    Instruction::Multiply,
    Instruction::Divide,
    Instruction::IntegerDivide,
    Instruction::Power,
    Instruction::Opposite,
    Instruction::AbsoluteValue,
    Instruction::Remainder,
    Instruction::BitwiseNot,
    Instruction::BitwiseAnd,
    Instruction::BitwiseOr,
    Instruction::BitwiseXor,
    Instruction::BitwiseShiftLeft,
    Instruction::BitwiseShiftRight,
    Instruction::And,
    Instruction::Or,
    Instruction::Xor,
    Instruction::Not,
    Instruction::Tis,
    Instruction::JumpIfTrue,
    Instruction::JumpIfFalse,
    Instruction::TypeOf,
    Instruction::ApplyType,
    Instruction::TypeEqual,
    Instruction::Equal,
    Instruction::NotEqual,
    Instruction::LessThan,
    Instruction::LessThanOrEqual,
    Instruction::GreaterThan,
    Instruction::GreaterThanOrEqual,
    Instruction::MakePair,
    Instruction::MakeList,
    Instruction::Apply,
    Instruction::PartialApply,
    Instruction::EmptyApply,
    Instruction::Reapply,
    Instruction::Access,
    Instruction::AccessLeftInternal,
    Instruction::AccessRightInternal,
    Instruction::AccessLengthInternal,
    Instruction::Resolve,
    Instruction::StartSideEffect,
    Instruction::EndSideEffect,
    Instruction::MakeRange,
    Instruction::MakeStartExclusiveRange,
    Instruction::MakeEndExclusiveRange,
    Instruction::MakeExclusiveRange,
    Instruction::Concat,
];

/// Fill one cell with a symbolic value of tag `tag` whose links point to cells < `d.n_cells`.
/// `max_len`: maximum length of list-like values.
pub fn push_any_cell_of<N: Nondet, const C: usize>(n: &mut N, d: &mut BoundedData<C>, tag: GarnishDataType, floats: bool, max_len: usize) -> usize {
    let below = d.n_cells;
    let mut c = Cell::of(tag);
    match tag {
        GarnishDataType::Unit | GarnishDataType::True | GarnishDataType::False | GarnishDataType::Custom | GarnishDataType::Invalid => {}
        GarnishDataType::Number => c.num = any_number(n, floats),
        GarnishDataType::Type => c.ty = any_tag(n),
        GarnishDataType::Char => c.a = any_char(n) as u32 as usize,
        GarnishDataType::Byte => c.a = n.u8() as usize,
        GarnishDataType::Symbol => c.sym = n.u64(),
        GarnishDataType::Expression => c.a = n.usize_below(JUMPS),
        GarnishDataType::External => c.a = n.usize_below(1 << 16),
        GarnishDataType::Pair | GarnishDataType::Concatenation | GarnishDataType::Partial => {
            n.assume(below > 0);
            c.a = n.usize_below(below);
            c.b = n.usize_below(below);
        }
        GarnishDataType::Range => {
            n.assume(below > 0);
            c.a = n.usize_below(below);
            c.b = n.usize_below(below);
            n.assume(d.cells[c.a].tag == GarnishDataType::Number && d.cells[c.b].tag == GarnishDataType::Number);
        }
        GarnishDataType::Slice => {
            n.assume(below > 1);
            c.a = n.usize_below(below);
            c.b = n.usize_below(below);
            let vt = d.cells[c.a].tag;
            n.assume(
                vt == GarnishDataType::List || vt == GarnishDataType::CharList || vt == GarnishDataType::ByteList || vt == GarnishDataType::Concatenation || vt == GarnishDataType::SymbolList,
            );
            n.assume(d.cells[c.b].tag == GarnishDataType::Range);
        }
        GarnishDataType::List => {
            let len = n.usize_below(max_len + 1);
            n.assume(len == 0 || below > 0);
            n.assume(d.n_items + len <= ITEMS);
            c.a = d.n_items;
            c.b = len;
            let mut i = 0;
            while i < max_len {
                if i < len {
                    d.items[d.n_items] = n.usize_below(below);
                    d.n_items += 1;
                }
                i += 1;
            }
        }
        GarnishDataType::CharList => {
            let len = n.usize_below(max_len + 1);
            n.assume(d.n_chars + len <= CHARS);
            c.a = d.n_chars;
            c.b = len;
            let mut i = 0;
            while i < max_len {
                if i < len {
                    d.chars[d.n_chars] = any_char(n);
                    d.n_chars += 1;
                }
                i += 1;
            }
        }
        GarnishDataType::ByteList => {
            let len = n.usize_below(max_len + 1);
            n.assume(d.n_bytes + len <= BYTES);
            c.a = d.n_bytes;
            c.b = len;
            let mut i = 0;
            while i < max_len {
                if i < len {
                    d.bytes[d.n_bytes] = n.u8();
                    d.n_bytes += 1;
                }
                i += 1;
            }
        }
        GarnishDataType::SymbolList => {
            let len = n.usize_below(max_len + 1);
            n.assume(d.n_symparts + len <= SYMPARTS);
            c.a = d.n_symparts;
            c.b = len;
            let mut i = 0;
            while i < max_len {
                if i < len {
                    let is_sym = n.bool();
                    d.symparts[d.n_symparts] = SymPart { is_sym, sym: n.u64(), num: SimpleNumber::Integer(n.i32()) };
                    d.n_symparts += 1;
                }
                i += 1;
            }
        }
    }
    d.push_cell(c).unwrap()
}

/// pool prefix sizes used by `any_state` (list-like values live inside these symbolic prefixes)
pub const P_ITEMS: usize = 6;
pub const P_CHARS: usize = 6;
pub const P_BYTES: usize = 6;
pub const P_SYMPARTS: usize = 4;

fn sliceable(t: GarnishDataType) -> bool {
    t == GarnishDataType::List || t == GarnishDataType::CharList || t == GarnishDataType::ByteList || t == GarnishDataType::Concatenation || t == GarnishDataType::SymbolList
}

/// validity of cell i (see module doc); pure, no nondeterminism
pub fn cell_valid<const C: usize>(d: &BoundedData<C>, i: usize, max_len: usize) -> bool {
    let c = d.cells[i];
    match c.tag {
        GarnishDataType::Invalid => false,
        GarnishDataType::Unit | GarnishDataType::True | GarnishDataType::False | GarnishDataType::Custom | GarnishDataType::Number | GarnishDataType::Type | GarnishDataType::Symbol => true,
        GarnishDataType::Char => c.a < 0xD800 || (c.a >= 0xE000 && c.a <= 0x10FFFF),
        GarnishDataType::Byte => c.a < 256,
        GarnishDataType::Expression => c.a < JUMPS,
        GarnishDataType::External => c.a < (1 << 16),
        GarnishDataType::Pair | GarnishDataType::Concatenation | GarnishDataType::Partial => c.a < i && c.b < i,
        GarnishDataType::Range => c.a < i && c.b < i && d.cells[c.a].tag == GarnishDataType::Number && d.cells[c.b].tag == GarnishDataType::Number,
        GarnishDataType::Slice => c.a < i && c.b < i && sliceable(d.cells[c.a].tag) && d.cells[c.b].tag == GarnishDataType::Range,
        GarnishDataType::List => {
            let mut ok = c.b <= max_len && c.a <= P_ITEMS && c.a + c.b <= P_ITEMS;
            let mut j = 0;
            while j < max_len {
                if ok && j < c.b {
                    ok = d.items[c.a + j] < i;
                }
                j += 1;
            }
            ok
        }
        GarnishDataType::CharList => c.b <= max_len && c.a <= P_CHARS && c.a + c.b <= P_CHARS,
        GarnishDataType::ByteList => c.b <= max_len && c.a <= P_BYTES && c.a + c.b <= P_BYTES,
        GarnishDataType::SymbolList => c.b <= max_len && c.a <= P_SYMPARTS && c.a + c.b <= P_SYMPARTS,
    }
}

/// k cells, each with a symbolic tag out of all 20, symbolic payload and links; pools pre-filled with
/// symbolic content; constrained by `cell_valid` only (state first, one assumption after)
pub fn any_state<N: Nondet, const C: usize>(n: &mut N, k: usize, floats: bool, max_len: usize) -> BoundedData<C> {
    let mut d = BoundedData::new();
    if max_len > 0 {
        let mut j = 0;
        while j < P_ITEMS {
            d.items[j] = n.usize();
            j += 1;
        }
        d.n_items = P_ITEMS;
        let mut j = 0;
        while j < P_CHARS {
            d.chars[j] = any_char(n);
            j += 1;
        }
        d.n_chars = P_CHARS;
        let mut j = 0;
        while j < P_BYTES {
            d.bytes[j] = n.u8();
            j += 1;
        }
        d.n_bytes = P_BYTES;
        let mut j = 0;
        while j < P_SYMPARTS {
            d.symparts[j] = SymPart { is_sym: n.bool(), sym: n.u64(), num: SimpleNumber::Integer(n.i32()) };
            j += 1;
        }
        d.n_symparts = P_SYMPARTS;
    }
    let mut i = 0;
    while i < k {
        let c = Cell { tag: any_tag(n), a: n.usize(), b: n.usize(), num: any_number(n, floats), sym: n.u64(), ty: any_tag(n) };
        d.cells[i] = c;
        d.n_cells = i + 1;
        let ok = cell_valid(&d, i, max_len);
        n.assume(ok);
        i += 1;
    }
    d
}

/// draw the scripted host's answers and values up front
pub fn script_host<N: Nondet, const C: usize>(n: &mut N, d: &mut BoundedData<C>, calls: usize) {
    let mut i = 0;
    while i < calls && i < HOST {
        d.answers[i] = n.bool();
        d.host_vals[i] = n.i32();
        i += 1;
    }
}

pub fn is_false_tag(t: GarnishDataType) -> bool {
    t == GarnishDataType::Unit || t == GarnishDataType::False
}

/// top of the register stack
pub fn top<const C: usize>(d: &BoundedData<C>) -> usize {
    d.regs[d.n_regs - 1]
}

pub fn tag_at<const C: usize>(d: &BoundedData<C>, addr: usize) -> GarnishDataType {
    d.get_data_type(addr).unwrap()
}
