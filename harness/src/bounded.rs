//! BoundedData — the `GarnishData` trait as an array-backed, heap-free environment.
//!
//! It models the *trait contract* (not either shipped store): typed getters fail with `Err` on a
//! wrong type or a bad address, indexed getters answer `Ok(None)` outside the collection, `add_*`
//! returns a fresh address that reads back, registers / values / frames / jump table / instructions
//! are plain stacks and tables. Numbers are the repo's real `SimpleNumber`; conversions are the
//! repo's real `SimpleDataFactory` functions. Host callbacks (`resolve`, `apply`, `defer_op`) are a
//! scripted host: answers and pushed values are pre-drawn by the harness, every call is logged.
//!
//! Instantiating the generic runtime (`garnish_lang_runtime::ops::*`, `execute_current_instruction`)
//! and the generic builder (`garnish_lang_compiler::build::build`) with this type is what makes them
//! tractable for CBMC (no `Vec`, no `HashMap`, no `String` on the data side).

use garnish_lang_simple_data::{NumberIterator, SimpleDataFactory, SimpleNumber, SizeIterator};
use garnish_lang_traits::{Extents, GarnishData, GarnishDataFactory, GarnishDataType, Instruction, SymbolListPart};
use std::fmt::{Debug, Display, Formatter};

/// default data-cell capacity (harnesses with symbolic addresses use a smaller `C`: every read through a
/// symbolic address is a multiplexer over all `C` cells)
pub const CELLS: usize = 40;
pub const ITEMS: usize = 16;
pub const CHARS: usize = 12;
pub const BYTES: usize = 12;
pub const SYMPARTS: usize = 8;
pub const REGS: usize = 16;
pub const VALUES: usize = 6;
pub const FRAMES: usize = 4;
pub const JUMPS: usize = 16;
pub const INSTRS: usize = 48;
pub const HOST: usize = 6;
pub const LITS: usize = 10;
pub const SYMS: usize = 8;

#[derive(Debug, Clone, Copy, PartialEq, Eq)]
pub struct BErr(pub u8);

impl Display for BErr {
    fn fmt(&self, f: &mut Formatter<'_>) -> std::fmt::Result {
        f.write_str("BErr")
    }
}

impl std::error::Error for BErr {}

pub const E_ADDR: BErr = BErr(1);
pub const E_TYPE: BErr = BErr(2);
pub const E_FULL: BErr = BErr(3);
pub const E_LIST: BErr = BErr(4);
pub const E_PARSE: BErr = BErr(5);

#[derive(Clone, Copy, Debug)]
pub struct Cell {
    pub tag: GarnishDataType,
    /// first link / pool start / char code / byte / expression index / external value
    pub a: usize,
    /// second link / pool length
    pub b: usize,
    pub num: SimpleNumber,
    pub sym: u64,
    /// for Type cells
    pub ty: GarnishDataType,
}

impl Cell {
    pub const fn empty() -> Cell {
        Cell { tag: GarnishDataType::Invalid, a: 0, b: 0, num: SimpleNumber::Integer(0), sym: 0, ty: GarnishDataType::Invalid }
    }
    pub fn of(tag: GarnishDataType) -> Cell {
        Cell { tag, ..Cell::empty() }
    }
}

#[derive(Clone, Copy, Debug, PartialEq, Eq)]
pub enum HostKind {
    Resolve,
    Apply,
    DeferOp,
}

#[derive(Clone, Copy, Debug)]
pub struct HostCall {
    pub kind: HostKind,
    pub op: Instruction,
    pub left: (GarnishDataType, usize),
    pub right: (GarnishDataType, usize),
    pub sym: u64,
    pub accepted: bool,
    /// register depth at the time of the call
    pub reg_depth: usize,
}

#[derive(Clone, Copy)]
pub struct SymPart {
    pub is_sym: bool,
    pub sym: u64,
    pub num: SimpleNumber,
}

pub struct BoundedData<const C: usize = CELLS> {
    pub cells: [Cell; C],
    pub n_cells: usize,
    pub items: [usize; ITEMS],
    pub n_items: usize,
    pub chars: [char; CHARS],
    pub n_chars: usize,
    pub bytes: [u8; BYTES],
    pub n_bytes: usize,
    pub symparts: [SymPart; SYMPARTS],
    pub n_symparts: usize,
    pub regs: [usize; REGS],
    pub n_regs: usize,
    pub values: [usize; VALUES],
    pub n_values: usize,
    pub frames: [usize; FRAMES],
    pub n_frames: usize,
    pub jumps: [usize; JUMPS],
    pub n_jumps: usize,
    pub instrs: [(Instruction, Option<usize>); INSTRS],
    pub n_instrs: usize,
    pub cursor: usize,
    // list under construction
    pub building_list: bool,
    pub list_start: usize,
    pub list_expected: usize,
    // scripted host
    pub answers: [bool; HOST],
    pub host_vals: [i32; HOST],
    pub calls: [HostCall; HOST],
    pub n_calls: usize,
    // literal environment for the builder
    pub lits: [SimpleNumber; LITS],
    pub syms: [u64; SYMS],
    pub lit_chars: [char; SYMS],
    /// set when a capacity of this model was exceeded (the harness asserts it stays false: a bound, not a behaviour)
    pub overflowed: bool,
}

const NO_CALL: HostCall = HostCall { kind: HostKind::Resolve, op: Instruction::Invalid, left: (GarnishDataType::Invalid, 0), right: (GarnishDataType::Invalid, 0), sym: 0, accepted: false, reg_depth: 0 };

impl<const C: usize> BoundedData<C> {
    pub fn new() -> Self {
        BoundedData {
            cells: [Cell::empty(); C],
            n_cells: 0,
            items: [0; ITEMS],
            n_items: 0,
            chars: ['\0'; CHARS],
            n_chars: 0,
            bytes: [0; BYTES],
            n_bytes: 0,
            symparts: [SymPart { is_sym: true, sym: 0, num: SimpleNumber::Integer(0) }; SYMPARTS],
            n_symparts: 0,
            regs: [0; REGS],
            n_regs: 0,
            values: [0; VALUES],
            n_values: 0,
            frames: [0; FRAMES],
            n_frames: 0,
            jumps: [0; JUMPS],
            n_jumps: 0,
            instrs: [(Instruction::Invalid, None); INSTRS],
            n_instrs: 0,
            cursor: 0,
            building_list: false,
            list_start: 0,
            list_expected: 0,
            answers: [false; HOST],
            host_vals: [0; HOST],
            calls: [NO_CALL; HOST],
            n_calls: 0,
            lits: [SimpleNumber::Integer(0); LITS],
            syms: [11, 22, 33, 44, 55, 66, 77, 88],
            lit_chars: ['a', 'b', 'c', 'd', 'e', 'f', 'g', 'h'],
            overflowed: false,
        }
    }

    // ------------------------------------------------------------ construction helpers (harness side)

    pub fn push_cell(&mut self, c: Cell) -> Result<usize, BErr> {
        if self.n_cells >= C {
            self.overflowed = true;
            return Err(E_FULL);
        }
        self.cells[self.n_cells] = c;
        self.n_cells += 1;
        Ok(self.n_cells - 1)
    }

    pub fn cell(&self, addr: usize) -> Result<&Cell, BErr> {
        if addr < self.n_cells { Ok(&self.cells[addr]) } else { Err(E_ADDR) }
    }

    fn typed(&self, addr: usize, tag: GarnishDataType) -> Result<&Cell, BErr> {
        let c = self.cell(addr)?;
        if c.tag == tag { Ok(c) } else { Err(E_TYPE) }
    }

    pub fn add_list_direct(&mut self, item_addrs: &[usize]) -> usize {
        let start = self.n_items;
        for (i, it) in item_addrs.iter().enumerate() {
            self.items[start + i] = *it;
        }
        self.n_items += item_addrs.len();
        let mut c = Cell::of(GarnishDataType::List);
        c.a = start;
        c.b = item_addrs.len();
        self.push_cell(c).unwrap()
    }

    pub fn add_char_list_direct(&mut self, cs: &[char]) -> usize {
        let start = self.n_chars;
        for (i, ch) in cs.iter().enumerate() {
            self.chars[start + i] = *ch;
        }
        self.n_chars += cs.len();
        let mut c = Cell::of(GarnishDataType::CharList);
        c.a = start;
        c.b = cs.len();
        self.push_cell(c).unwrap()
    }

    pub fn add_byte_list_direct(&mut self, bs: &[u8]) -> usize {
        let start = self.n_bytes;
        for (i, b) in bs.iter().enumerate() {
            self.bytes[start + i] = *b;
        }
        self.n_bytes += bs.len();
        let mut c = Cell::of(GarnishDataType::ByteList);
        c.a = start;
        c.b = bs.len();
        self.push_cell(c).unwrap()
    }

    pub fn add_symbol_list_direct(&mut self, parts: &[SymPart]) -> usize {
        let start = self.n_symparts;
        for (i, p) in parts.iter().enumerate() {
            self.symparts[start + i] = *p;
        }
        self.n_symparts += parts.len();
        let mut c = Cell::of(GarnishDataType::SymbolList);
        c.a = start;
        c.b = parts.len();
        self.push_cell(c).unwrap()
    }

    fn index_of(n: SimpleNumber) -> usize {
        // the repo's own Number -> Size conversion (negative and NaN clamp to 0, floats truncate)
        usize::from(n)
    }

    fn extents(ext: &Extents<SimpleNumber>, len: usize) -> (usize, usize) {
        let s = Self::index_of(*ext.start()).min(len);
        let e = Self::index_of(*ext.end()).min(len);
        (s, if e < s { s } else { e })
    }

    fn host(&mut self, kind: HostKind, op: Instruction, left: (GarnishDataType, usize), right: (GarnishDataType, usize), sym: u64) -> Result<bool, BErr> {
        if self.n_calls >= HOST {
            self.overflowed = true;
            return Err(E_FULL);
        }
        let i = self.n_calls;
        let accepted = self.answers[i];
        self.calls[i] = HostCall { kind, op, left, right, sym, accepted, reg_depth: self.n_regs };
        self.n_calls += 1;
        if accepted {
            let addr = self.add_number(SimpleNumber::Integer(self.host_vals[i]))?;
            self.push_register(addr)?;
        }
        Ok(accepted)
    }

    /// flat item sequence of a concatenation (lists contribute their items, nested concatenations are
    /// flattened, anything else contributes itself), left to right
    pub fn flatten_concat(&self, addr: usize, out: &mut [usize; ITEMS]) -> Result<usize, BErr> {
        let mut stack = [0usize; ITEMS];
        let mut sp = 0usize;
        let mut n = 0usize;
        stack[0] = addr;
        sp = sp + 1;
        let mut guard = 0;
        while sp > 0 {
            guard += 1;
            if guard > 12 {
                // deeper / longer concatenations than any harness builds
                return Err(E_FULL);
            }
            sp -= 1;
            let cur = stack[sp];
            let c = *self.cell(cur)?;
            match c.tag {
                GarnishDataType::Concatenation => {
                    if sp + 2 > ITEMS {
                        return Err(E_FULL);
                    }
                    stack[sp] = c.b;
                    stack[sp + 1] = c.a;
                    sp += 2;
                }
                GarnishDataType::List => {
                    let mut i = 0;
                    while i < c.b {
                        if n >= ITEMS {
                            return Err(E_FULL);
                        }
                        out[n] = self.items[c.a + i];
                        n += 1;
                        i += 1;
                    }
                }
                _ => {
                    if n >= ITEMS {
                        return Err(E_FULL);
                    }
                    out[n] = cur;
                    n += 1;
                }
            }
        }
        Ok(n)
    }
}

// ------------------------------------------------------------ iterators

#[derive(Clone, Copy)]
pub struct ArrIter<T: Copy, const N: usize> {
    pub items: [T; N],
    pub len: usize,
    pub pos: usize,
}

impl<T: Copy, const N: usize> Iterator for ArrIter<T, N> {
    type Item = T;
    fn next(&mut self) -> Option<T> {
        if self.pos < self.len {
            self.pos += 1;
            Some(self.items[self.pos - 1])
        } else {
            None
        }
    }
}

pub struct SymPartIter {
    pub items: [SymPart; SYMPARTS],
    pub len: usize,
    pub pos: usize,
}

impl Iterator for SymPartIter {
    type Item = SymbolListPart<u64, SimpleNumber>;
    fn next(&mut self) -> Option<Self::Item> {
        if self.pos < self.len {
            let p = self.items[self.pos];
            self.pos += 1;
            Some(if p.is_sym { SymbolListPart::Symbol(p.sym) } else { SymbolListPart::Number(p.num) })
        } else {
            None
        }
    }
}

// ------------------------------------------------------------ factory

pub struct BFactory;

impl GarnishDataFactory<usize, SimpleNumber, char, u8, u64, BErr, SizeIterator, NumberIterator> for BFactory {
    fn size_to_number(from: usize) -> SimpleNumber {
        SimpleDataFactory::size_to_number(from)
    }
    fn number_to_size(from: SimpleNumber) -> Option<usize> {
        SimpleDataFactory::number_to_size(from)
    }
    fn number_to_char(from: SimpleNumber) -> Option<char> {
        SimpleDataFactory::number_to_char(from)
    }
    fn number_to_byte(from: SimpleNumber) -> Option<u8> {
        SimpleDataFactory::number_to_byte(from)
    }
    fn char_to_number(from: char) -> Option<SimpleNumber> {
        SimpleDataFactory::char_to_number(from)
    }
    fn char_to_byte(from: char) -> Option<u8> {
        SimpleDataFactory::char_to_byte(from)
    }
    fn byte_to_number(from: u8) -> Option<SimpleNumber> {
        SimpleDataFactory::byte_to_number(from)
    }
    fn byte_to_char(from: u8) -> Option<char> {
        SimpleDataFactory::byte_to_char(from)
    }
    fn parse_number(_from: &str) -> Result<SimpleNumber, BErr> {
        Err(E_PARSE)
    }
    fn parse_symbol(_from: &str) -> Result<u64, BErr> {
        Err(E_PARSE)
    }
    fn parse_char(_from: &str) -> Result<char, BErr> {
        Err(E_PARSE)
    }
    fn parse_byte(_from: &str) -> Result<u8, BErr> {
        Err(E_PARSE)
    }
    fn parse_char_list(_from: &str) -> Result<Vec<char>, BErr> {
        Err(E_PARSE)
    }
    fn parse_byte_list(_from: &str) -> Result<Vec<u8>, BErr> {
        Err(E_PARSE)
    }
    fn make_size_iterator_range(min: usize, max: usize) -> SizeIterator {
        SizeIterator::new(min, max)
    }
    fn make_number_iterator_range(min: SimpleNumber, max: SimpleNumber) -> NumberIterator {
        NumberIterator::new(min, max)
    }
}

// ------------------------------------------------------------ the trait

impl<const C: usize> GarnishData for BoundedData<C> {
    type Error = BErr;
    type Symbol = u64;
    type Byte = u8;
    type Char = char;
    type Number = SimpleNumber;
    type Size = usize;
    type SizeIterator = SizeIterator;
    type NumberIterator = NumberIterator;
    type InstructionIterator = SizeIterator;
    type DataIndexIterator = SizeIterator;
    type ValueIndexIterator = SizeIterator;
    type RegisterIndexIterator = SizeIterator;
    type JumpTableIndexIterator = SizeIterator;
    type JumpPathIndexIterator = SizeIterator;
    type ListIndexIterator = NumberIterator;
    type ListItemIterator = ArrIter<usize, ITEMS>;
    type ConcatenationItemIterator = ArrIter<usize, ITEMS>;
    type CharIterator = ArrIter<char, CHARS>;
    type ByteIterator = ArrIter<u8, BYTES>;
    type SymbolListPartIterator = SymPartIter;
    type DataFactory = BFactory;

    fn get_data_len(&self) -> usize {
        self.n_cells
    }
    fn get_data_iter(&self) -> SizeIterator {
        SizeIterator::new(0, self.n_cells)
    }

    fn push_value_stack(&mut self, addr: usize) -> Result<(), BErr> {
        if self.n_values >= VALUES {
            self.overflowed = true;
            return Err(E_FULL);
        }
        self.values[self.n_values] = addr;
        self.n_values += 1;
        Ok(())
    }
    fn pop_value_stack(&mut self) -> Option<usize> {
        if self.n_values == 0 {
            None
        } else {
            self.n_values -= 1;
            Some(self.values[self.n_values])
        }
    }
    fn get_current_value(&self) -> Option<usize> {
        if self.n_values == 0 { None } else { Some(self.values[self.n_values - 1]) }
    }
    fn get_current_value_mut(&mut self) -> Option<&mut usize> {
        if self.n_values == 0 { None } else { Some(&mut self.values[self.n_values - 1]) }
    }

    fn get_data_type(&self, addr: usize) -> Result<GarnishDataType, BErr> {
        Ok(self.cell(addr)?.tag)
    }
    fn get_number(&self, addr: usize) -> Result<SimpleNumber, BErr> {
        Ok(self.typed(addr, GarnishDataType::Number)?.num)
    }
    fn get_type(&self, addr: usize) -> Result<GarnishDataType, BErr> {
        Ok(self.typed(addr, GarnishDataType::Type)?.ty)
    }
    fn get_char(&self, addr: usize) -> Result<char, BErr> {
        Ok(char::from_u32(self.typed(addr, GarnishDataType::Char)?.a as u32).unwrap_or('\0'))
    }
    fn get_byte(&self, addr: usize) -> Result<u8, BErr> {
        Ok(self.typed(addr, GarnishDataType::Byte)?.a as u8)
    }
    fn get_symbol(&self, addr: usize) -> Result<u64, BErr> {
        Ok(self.typed(addr, GarnishDataType::Symbol)?.sym)
    }
    fn get_expression(&self, addr: usize) -> Result<usize, BErr> {
        Ok(self.typed(addr, GarnishDataType::Expression)?.a)
    }
    fn get_external(&self, addr: usize) -> Result<usize, BErr> {
        Ok(self.typed(addr, GarnishDataType::External)?.a)
    }
    fn get_pair(&self, addr: usize) -> Result<(usize, usize), BErr> {
        let c = self.typed(addr, GarnishDataType::Pair)?;
        Ok((c.a, c.b))
    }
    fn get_concatenation(&self, addr: usize) -> Result<(usize, usize), BErr> {
        let c = self.typed(addr, GarnishDataType::Concatenation)?;
        Ok((c.a, c.b))
    }
    fn get_range(&self, addr: usize) -> Result<(usize, usize), BErr> {
        let c = self.typed(addr, GarnishDataType::Range)?;
        Ok((c.a, c.b))
    }
    fn get_slice(&self, addr: usize) -> Result<(usize, usize), BErr> {
        let c = self.typed(addr, GarnishDataType::Slice)?;
        Ok((c.a, c.b))
    }
    fn get_partial(&self, addr: usize) -> Result<(usize, usize), BErr> {
        let c = self.typed(addr, GarnishDataType::Partial)?;
        Ok((c.a, c.b))
    }

    fn get_list_len(&self, addr: usize) -> Result<usize, BErr> {
        Ok(self.typed(addr, GarnishDataType::List)?.b)
    }
    fn get_list_item(&self, list_addr: usize, item_addr: SimpleNumber) -> Result<Option<usize>, BErr> {
        let c = self.typed(list_addr, GarnishDataType::List)?;
        let i = Self::index_of(item_addr);
        Ok(if i < c.b { Some(self.items[c.a + i]) } else { None })
    }
    fn get_list_item_with_symbol(&self, list_addr: usize, sym: u64) -> Result<Option<usize>, BErr> {
        let c = *self.typed(list_addr, GarnishDataType::List)?;
        // contract: the value of the pair keyed by `sym`; with duplicate keys the last one
        let mut found = None;
        let mut i = 0;
        while i < c.b {
            let item = self.items[c.a + i];
            let ic = self.cell(item)?;
            if ic.tag == GarnishDataType::Pair {
                let l = self.cell(ic.a)?;
                if l.tag == GarnishDataType::Symbol && l.sym == sym {
                    found = Some(ic.b);
                }
            }
            i += 1;
        }
        Ok(found)
    }

    fn get_char_list_len(&self, addr: usize) -> Result<usize, BErr> {
        Ok(self.typed(addr, GarnishDataType::CharList)?.b)
    }
    fn get_char_list_item(&self, addr: usize, item_index: SimpleNumber) -> Result<Option<char>, BErr> {
        let c = self.typed(addr, GarnishDataType::CharList)?;
        let i = Self::index_of(item_index);
        Ok(if i < c.b { Some(self.chars[c.a + i]) } else { None })
    }
    fn get_byte_list_len(&self, addr: usize) -> Result<usize, BErr> {
        Ok(self.typed(addr, GarnishDataType::ByteList)?.b)
    }
    fn get_byte_list_item(&self, addr: usize, item_index: SimpleNumber) -> Result<Option<u8>, BErr> {
        let c = self.typed(addr, GarnishDataType::ByteList)?;
        let i = Self::index_of(item_index);
        Ok(if i < c.b { Some(self.bytes[c.a + i]) } else { None })
    }
    fn get_symbol_list_len(&self, addr: usize) -> Result<usize, BErr> {
        Ok(self.typed(addr, GarnishDataType::SymbolList)?.b)
    }
    fn get_symbol_list_item(&self, addr: usize, item_index: SimpleNumber) -> Result<Option<SymbolListPart<u64, SimpleNumber>>, BErr> {
        let c = self.typed(addr, GarnishDataType::SymbolList)?;
        let i = Self::index_of(item_index);
        Ok(if i < c.b {
            let p = self.symparts[c.a + i];
            Some(if p.is_sym { SymbolListPart::Symbol(p.sym) } else { SymbolListPart::Number(p.num) })
        } else {
            None
        })
    }

    fn get_char_list_iter(&self, list_addr: usize, extents: Extents<SimpleNumber>) -> Result<Self::CharIterator, BErr> {
        let c = *self.typed(list_addr, GarnishDataType::CharList)?;
        let (s, e) = Self::extents(&extents, c.b);
        let mut items = ['\0'; CHARS];
        let mut i = s;
        while i < e {
            items[i - s] = self.chars[c.a + i];
            i += 1;
        }
        Ok(ArrIter { items, len: e - s, pos: 0 })
    }
    fn get_byte_list_iter(&self, list_addr: usize, extents: Extents<SimpleNumber>) -> Result<Self::ByteIterator, BErr> {
        let c = *self.typed(list_addr, GarnishDataType::ByteList)?;
        let (s, e) = Self::extents(&extents, c.b);
        let mut items = [0u8; BYTES];
        let mut i = s;
        while i < e {
            items[i - s] = self.bytes[c.a + i];
            i += 1;
        }
        Ok(ArrIter { items, len: e - s, pos: 0 })
    }
    fn get_symbol_list_iter(&self, list_addr: usize, extents: Extents<SimpleNumber>) -> Result<Self::SymbolListPartIterator, BErr> {
        let c = *self.typed(list_addr, GarnishDataType::SymbolList)?;
        let (s, e) = Self::extents(&extents, c.b);
        let mut items = [SymPart { is_sym: true, sym: 0, num: SimpleNumber::Integer(0) }; SYMPARTS];
        let mut i = s;
        while i < e {
            items[i - s] = self.symparts[c.a + i];
            i += 1;
        }
        Ok(SymPartIter { items, len: e - s, pos: 0 })
    }
    fn get_list_item_iter(&self, list_addr: usize, extents: Extents<SimpleNumber>) -> Result<Self::ListItemIterator, BErr> {
        let c = *self.typed(list_addr, GarnishDataType::List)?;
        let (s, e) = Self::extents(&extents, c.b);
        let mut items = [0usize; ITEMS];
        let mut i = s;
        while i < e {
            items[i - s] = self.items[c.a + i];
            i += 1;
        }
        Ok(ArrIter { items, len: e - s, pos: 0 })
    }
    fn get_concatenation_iter(&self, addr: usize, extents: Extents<SimpleNumber>) -> Result<Self::ConcatenationItemIterator, BErr> {
        self.typed(addr, GarnishDataType::Concatenation)?;
        let mut flat = [0usize; ITEMS];
        let n = self.flatten_concat(addr, &mut flat)?;
        let (s, e) = Self::extents(&extents, n);
        let mut items = [0usize; ITEMS];
        let mut i = s;
        while i < e {
            items[i - s] = flat[i];
            i += 1;
        }
        Ok(ArrIter { items, len: e - s, pos: 0 })
    }

    fn add_unit(&mut self) -> Result<usize, BErr> {
        self.push_cell(Cell::of(GarnishDataType::Unit))
    }
    fn add_true(&mut self) -> Result<usize, BErr> {
        self.push_cell(Cell::of(GarnishDataType::True))
    }
    fn add_false(&mut self) -> Result<usize, BErr> {
        self.push_cell(Cell::of(GarnishDataType::False))
    }
    fn add_number(&mut self, value: SimpleNumber) -> Result<usize, BErr> {
        let mut c = Cell::of(GarnishDataType::Number);
        c.num = value;
        self.push_cell(c)
    }
    fn add_type(&mut self, value: GarnishDataType) -> Result<usize, BErr> {
        let mut c = Cell::of(GarnishDataType::Type);
        c.ty = value;
        self.push_cell(c)
    }
    fn add_char(&mut self, value: char) -> Result<usize, BErr> {
        let mut c = Cell::of(GarnishDataType::Char);
        c.a = value as u32 as usize;
        self.push_cell(c)
    }
    fn add_byte(&mut self, value: u8) -> Result<usize, BErr> {
        let mut c = Cell::of(GarnishDataType::Byte);
        c.a = value as usize;
        self.push_cell(c)
    }
    fn add_symbol(&mut self, value: u64) -> Result<usize, BErr> {
        let mut c = Cell::of(GarnishDataType::Symbol);
        c.sym = value;
        self.push_cell(c)
    }
    fn add_expression(&mut self, value: usize) -> Result<usize, BErr> {
        let mut c = Cell::of(GarnishDataType::Expression);
        c.a = value;
        self.push_cell(c)
    }
    fn add_external(&mut self, value: usize) -> Result<usize, BErr> {
        let mut c = Cell::of(GarnishDataType::External);
        c.a = value;
        self.push_cell(c)
    }
    fn add_pair(&mut self, value: (usize, usize)) -> Result<usize, BErr> {
        let mut c = Cell::of(GarnishDataType::Pair);
        c.a = value.0;
        c.b = value.1;
        self.push_cell(c)
    }
    fn add_concatenation(&mut self, left: usize, right: usize) -> Result<usize, BErr> {
        let mut c = Cell::of(GarnishDataType::Concatenation);
        c.a = left;
        c.b = right;
        self.push_cell(c)
    }
    fn add_range(&mut self, start: usize, end: usize) -> Result<usize, BErr> {
        let mut c = Cell::of(GarnishDataType::Range);
        c.a = start;
        c.b = end;
        self.push_cell(c)
    }
    fn add_slice(&mut self, list: usize, range: usize) -> Result<usize, BErr> {
        let mut c = Cell::of(GarnishDataType::Slice);
        c.a = list;
        c.b = range;
        self.push_cell(c)
    }
    fn add_partial(&mut self, reciever: usize, input: usize) -> Result<usize, BErr> {
        let mut c = Cell::of(GarnishDataType::Partial);
        c.a = reciever;
        c.b = input;
        self.push_cell(c)
    }

    fn merge_to_symbol_list(&mut self, first: usize, second: usize) -> Result<usize, BErr> {
        let start = self.n_symparts;
        let mut n = 0usize;
        for addr in [first, second] {
            let c = *self.cell(addr)?;
            match c.tag {
                GarnishDataType::Symbol => {
                    if start + n >= SYMPARTS {
                        self.overflowed = true;
                        return Err(E_FULL);
                    }
                    self.symparts[start + n] = SymPart { is_sym: true, sym: c.sym, num: SimpleNumber::Integer(0) };
                    n += 1;
                }
                GarnishDataType::Number => {
                    if start + n >= SYMPARTS {
                        self.overflowed = true;
                        return Err(E_FULL);
                    }
                    self.symparts[start + n] = SymPart { is_sym: false, sym: 0, num: c.num };
                    n += 1;
                }
                GarnishDataType::SymbolList => {
                    let mut i = 0;
                    while i < c.b {
                        if start + n >= SYMPARTS {
                            self.overflowed = true;
                            return Err(E_FULL);
                        }
                        self.symparts[start + n] = self.symparts[c.a + i];
                        n += 1;
                        i += 1;
                    }
                }
                _ => return Err(E_TYPE),
            }
        }
        self.n_symparts += n;
        let mut c = Cell::of(GarnishDataType::SymbolList);
        c.a = start;
        c.b = n;
        self.push_cell(c)
    }

    fn start_list(&mut self, len: usize) -> Result<usize, BErr> {
        if self.building_list {
            return Err(E_LIST);
        }
        if self.n_items + len > ITEMS {
            self.overflowed = true;
            return Err(E_FULL);
        }
        self.building_list = true;
        self.list_start = self.n_items;
        self.list_expected = len;
        Ok(0)
    }
    fn add_to_list(&mut self, list_index: usize, item_index: usize) -> Result<usize, BErr> {
        if !self.building_list {
            return Err(E_LIST);
        }
        if self.n_items - self.list_start >= self.list_expected {
            return Err(E_LIST);
        }
        self.cell(item_index)?;
        self.items[self.n_items] = item_index;
        self.n_items += 1;
        Ok(list_index)
    }
    fn end_list(&mut self, _list_index: usize) -> Result<usize, BErr> {
        if !self.building_list {
            return Err(E_LIST);
        }
        self.building_list = false;
        let mut c = Cell::of(GarnishDataType::List);
        c.a = self.list_start;
        c.b = self.n_items - self.list_start;
        self.push_cell(c)
    }

    fn get_register_len(&self) -> usize {
        self.n_regs
    }
    fn push_register(&mut self, addr: usize) -> Result<(), BErr> {
        if self.n_regs >= REGS {
            self.overflowed = true;
            return Err(E_FULL);
        }
        self.regs[self.n_regs] = addr;
        self.n_regs += 1;
        Ok(())
    }
    fn get_register(&self, addr: usize) -> Option<usize> {
        if addr < self.n_regs { Some(self.regs[addr]) } else { None }
    }
    fn pop_register(&mut self) -> Result<Option<usize>, BErr> {
        if self.n_regs == 0 {
            Ok(None)
        } else {
            self.n_regs -= 1;
            Ok(Some(self.regs[self.n_regs]))
        }
    }

    fn get_instruction_len(&self) -> usize {
        self.n_instrs
    }
    fn push_instruction(&mut self, instruction: Instruction, data: Option<usize>) -> Result<usize, BErr> {
        if self.n_instrs >= INSTRS {
            self.overflowed = true;
            return Err(E_FULL);
        }
        self.instrs[self.n_instrs] = (instruction, data);
        self.n_instrs += 1;
        Ok(self.n_instrs - 1)
    }
    fn get_instruction(&self, addr: usize) -> Option<(Instruction, Option<usize>)> {
        if addr < self.n_instrs { Some(self.instrs[addr]) } else { None }
    }
    fn get_instruction_iter(&self) -> SizeIterator {
        SizeIterator::new(0, self.n_instrs)
    }
    fn get_instruction_cursor(&self) -> usize {
        self.cursor
    }
    fn set_instruction_cursor(&mut self, addr: usize) -> Result<(), BErr> {
        self.cursor = addr;
        Ok(())
    }

    fn get_jump_table_len(&self) -> usize {
        self.n_jumps
    }
    fn push_to_jump_table(&mut self, index: usize) -> Result<(), BErr> {
        if self.n_jumps >= JUMPS {
            self.overflowed = true;
            return Err(E_FULL);
        }
        self.jumps[self.n_jumps] = index;
        self.n_jumps += 1;
        Ok(())
    }
    fn get_from_jump_table(&self, index: usize) -> Option<usize> {
        if index < self.n_jumps { Some(self.jumps[index]) } else { None }
    }
    fn get_from_jump_table_mut(&mut self, index: usize) -> Option<&mut usize> {
        if index < self.n_jumps { Some(&mut self.jumps[index]) } else { None }
    }

    fn push_frame(&mut self, index: usize) -> Result<(), BErr> {
        if self.n_frames >= FRAMES {
            self.overflowed = true;
            return Err(E_FULL);
        }
        self.frames[self.n_frames] = index;
        self.n_frames += 1;
        Ok(())
    }
    fn pop_frame(&mut self) -> Result<Option<usize>, BErr> {
        if self.n_frames == 0 {
            Ok(None)
        } else {
            self.n_frames -= 1;
            Ok(Some(self.frames[self.n_frames]))
        }
    }

    // conversions: the contract only says "a fresh value of the requested type, or unit when the
    // value has no such conversion". Modelled as: a value of the requested type with unconstrained
    // but fixed content (empty list / symbol 0 / unit) — the runtime only pushes the address.
    fn add_char_list_from(&mut self, from: usize) -> Result<usize, BErr> {
        self.cell(from)?;
        let mut c = Cell::of(GarnishDataType::CharList);
        c.a = self.n_chars;
        c.b = 0;
        self.push_cell(c)
    }
    fn add_byte_list_from(&mut self, from: usize) -> Result<usize, BErr> {
        self.cell(from)?;
        let mut c = Cell::of(GarnishDataType::ByteList);
        c.a = self.n_bytes;
        c.b = 0;
        self.push_cell(c)
    }
    fn add_symbol_from(&mut self, from: usize) -> Result<usize, BErr> {
        self.cell(from)?;
        self.add_symbol(0)
    }
    fn add_number_from(&mut self, from: usize) -> Result<usize, BErr> {
        self.cell(from)?;
        self.add_unit()
    }

    // literals: the builder hands over the token text; literal *parsing* is outside this model.
    // A number literal is a one-digit placeholder d whose value is lits[d]; a symbol / identifier
    // text is a placeholder letter whose value is syms[letter - 'a']; a char list "xyz" holds
    // lit_chars[letter - 'a'] per letter; a byte list 'xyz' the letters' ASCII codes.
    fn parse_add_number(&mut self, from: &str) -> Result<usize, BErr> {
        let b = from.as_bytes();
        if b.len() != 1 || b[0] < b'0' || b[0] > b'9' {
            return Err(E_PARSE);
        }
        self.add_number(self.lits[(b[0] - b'0') as usize])
    }
    fn parse_add_symbol(&mut self, from: &str) -> Result<usize, BErr> {
        let b = from.as_bytes();
        let mut i = 0;
        while i < b.len() {
            if b[i] >= b'a' && b[i] < b'a' + SYMS as u8 {
                return self.add_symbol(self.syms[(b[i] - b'a') as usize]);
            }
            i += 1;
        }
        Err(E_PARSE)
    }
    fn parse_add_char_list(&mut self, from: &str) -> Result<usize, BErr> {
        let b = from.as_bytes();
        let start = self.n_chars;
        let mut n = 0usize;
        let mut i = 0;
        while i < b.len() {
            if b[i] >= b'a' && b[i] < b'a' + SYMS as u8 {
                if start + n >= CHARS {
                    self.overflowed = true;
                    return Err(E_FULL);
                }
                self.chars[start + n] = self.lit_chars[(b[i] - b'a') as usize];
                n += 1;
            }
            i += 1;
        }
        self.n_chars += n;
        let mut c = Cell::of(GarnishDataType::CharList);
        c.a = start;
        c.b = n;
        self.push_cell(c)
    }
    fn parse_add_byte_list(&mut self, from: &str) -> Result<usize, BErr> {
        let b = from.as_bytes();
        let start = self.n_bytes;
        let mut n = 0usize;
        let mut i = 0;
        while i < b.len() {
            if b[i] >= b'a' && b[i] <= b'z' {
                if start + n >= BYTES {
                    self.overflowed = true;
                    return Err(E_FULL);
                }
                self.bytes[start + n] = b[i];
                n += 1;
            }
            i += 1;
        }
        self.n_bytes += n;
        let mut c = Cell::of(GarnishDataType::ByteList);
        c.a = start;
        c.b = n;
        self.push_cell(c)
    }

    fn resolve(&mut self, symbol: u64) -> Result<bool, BErr> {
        self.host(HostKind::Resolve, Instruction::Resolve, (GarnishDataType::Invalid, 0), (GarnishDataType::Invalid, 0), symbol)
    }
    fn apply(&mut self, external_value: usize, input_addr: usize) -> Result<bool, BErr> {
        self.host(HostKind::Apply, Instruction::Apply, (GarnishDataType::External, external_value), (GarnishDataType::Invalid, input_addr), 0)
    }
    fn defer_op(&mut self, operation: Instruction, left: (GarnishDataType, usize), right: (GarnishDataType, usize)) -> Result<bool, BErr> {
        self.host(HostKind::DeferOp, operation, left, right, 0)
    }
}
