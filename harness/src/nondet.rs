//! Source of nondeterministic values for harness bodies.
//!
//! `KaniNondet` draws every value from `kani::any()` (one primitive per call, so that a
//! concrete-playback byte vector maps 1:1 onto a call); `ReplayNondet` feeds the values of a
//! counterexample back, in order, to the very same body on the native build.

pub trait Nondet {
    fn u8(&mut self) -> u8;
    fn u16(&mut self) -> u16;
    fn u32(&mut self) -> u32;
    fn u64(&mut self) -> u64;
    fn i32(&mut self) -> i32;
    fn f64(&mut self) -> f64;
    fn bool(&mut self) -> bool;
    fn usize(&mut self) -> usize;
    /// Restrict the inputs. Under Kani: `kani::assume`. Under replay: a violated assumption
    /// means the witness does not belong to this harness; the replay is abandoned.
    fn assume(&mut self, cond: bool);

    /// value in 0..n (n >= 1)
    fn below(&mut self, n: u8) -> u8 {
        let v = self.u8();
        self.assume(v < n);
        v
    }
    fn usize_below(&mut self, n: usize) -> usize {
        let v = self.usize();
        self.assume(v < n);
        v
    }
    fn finite_f64(&mut self) -> f64 {
        let v = self.f64();
        self.assume(v.is_finite());
        v
    }
}

#[cfg(kani)]
pub struct KaniNondet;

#[cfg(kani)]
impl Nondet for KaniNondet {
    fn u8(&mut self) -> u8 {
        kani::any()
    }
    fn u16(&mut self) -> u16 {
        kani::any()
    }
    fn u32(&mut self) -> u32 {
        kani::any()
    }
    fn u64(&mut self) -> u64 {
        kani::any()
    }
    fn i32(&mut self) -> i32 {
        kani::any()
    }
    fn f64(&mut self) -> f64 {
        kani::any()
    }
    fn bool(&mut self) -> bool {
        kani::any()
    }
    fn usize(&mut self) -> usize {
        kani::any()
    }
    fn assume(&mut self, cond: bool) {
        kani::assume(cond)
    }
}

/// Marker payload used to unwind out of a replay whose assumption does not hold.
pub struct AssumptionViolated;

pub struct ReplayNondet {
    pub values: Vec<Vec<u8>>,
    pub next: usize,
    pub exhausted: bool,
}

impl ReplayNondet {
    pub fn new(values: Vec<Vec<u8>>) -> Self {
        ReplayNondet { values, next: 0, exhausted: false }
    }

    fn take<const W: usize>(&mut self) -> [u8; W] {
        let mut out = [0u8; W];
        match self.values.get(self.next) {
            Some(v) => {
                for (i, b) in v.iter().take(W).enumerate() {
                    out[i] = *b;
                }
            }
            None => self.exhausted = true,
        }
        self.next += 1;
        out
    }
}

impl Nondet for ReplayNondet {
    fn u8(&mut self) -> u8 {
        self.take::<1>()[0]
    }
    fn u16(&mut self) -> u16 {
        u16::from_le_bytes(self.take::<2>())
    }
    fn u32(&mut self) -> u32 {
        u32::from_le_bytes(self.take::<4>())
    }
    fn u64(&mut self) -> u64 {
        u64::from_le_bytes(self.take::<8>())
    }
    fn i32(&mut self) -> i32 {
        i32::from_le_bytes(self.take::<4>())
    }
    fn f64(&mut self) -> f64 {
        f64::from_le_bytes(self.take::<8>())
    }
    fn bool(&mut self) -> bool {
        self.take::<1>()[0] != 0
    }
    fn usize(&mut self) -> usize {
        usize::from_le_bytes(self.take::<8>())
    }
    fn assume(&mut self, cond: bool) {
        if !cond {
            std::panic::panic_any(AssumptionViolated);
        }
    }
}

/// Reachability witness (vacuity guard): `kani::cover!` under Kani, nothing natively.
#[macro_export]
macro_rules! gv_cover {
    ($c:expr, $m:literal) => {{
        #[cfg(kani)]
        kani::cover!($c, $m);
        #[cfg(not(kani))]
        {
            let _ = $c;
        }
    }};
}

/// Assertion attributed to a property: the description carries the property id so that the driver
/// counts a failure only for the property it belongs to (harnesses are shared between properties).
#[macro_export]
macro_rules! pa {
    ($p:literal, $c:expr) => {{
        const GV_SELECTED: bool = $crate::nondet::tag_selected($p);
        if GV_SELECTED {
            assert!($c, concat!("[", $p, "] ", stringify!($c)))
        }
    }};
}

/// Harnesses are shared between properties and Kani's `assert!` is assert-then-assume: a failed assertion of
/// ANOTHER property cuts off every path behind it and hides this property's own assertions (seeded C10-m2 was
/// invisible to the C10 check for that reason). The driver therefore compiles the harness crate with the
/// environment variable GV_PROP=<property under check>; an assertion whose tag list does not name that property
/// is then not compiled in at all. Without the variable (native replay, self-test, witness search) every
/// assertion is active.
pub const fn tag_selected(tags: &str) -> bool {
    match option_env!("GV_PROP") {
        None => true,
        Some(p) => {
            let h = tags.as_bytes();
            let n = p.as_bytes();
            if n.len() == 0 {
                return true;
            }
            let mut i = 0;
            while i + n.len() <= h.len() {
                let mut j = 0;
                let mut m = true;
                while j < n.len() {
                    if h[i + j] != n[j] {
                        m = false;
                    }
                    j += 1;
                }
                if m {
                    return true;
                }
                i += 1;
            }
            false
        }
    }
}

/// Pseudo-random inputs for the native self-test of oracles and for the native search of a concrete witness
/// AFTER the solver has reported a failed check (never part of a decision). Every draw is logged in the byte
/// format of Kani's concrete playback, so that a failing run can be written out as a replay file.
pub struct RandomNondet {
    pub state: u64,
    pub log: std::sync::Arc<std::sync::Mutex<Vec<Vec<u8>>>>,
}

impl RandomNondet {
    pub fn new(seed: u64) -> Self {
        RandomNondet { state: seed.wrapping_mul(0x9E3779B97F4A7C15) | 1, log: Default::default() }
    }
    fn next(&mut self) -> u64 {
        // xorshift64*
        let mut x = self.state;
        x ^= x >> 12;
        x ^= x << 25;
        x ^= x >> 27;
        self.state = x;
        x.wrapping_mul(0x2545F4914F6CDD1D)
    }
    fn rec(&mut self, bytes: &[u8]) {
        if let Ok(mut l) = self.log.lock() {
            l.push(bytes.to_vec());
        }
    }
}

impl Nondet for RandomNondet {
    fn u8(&mut self) -> u8 {
        // small values most of the time so that `below(n)` assumptions hold often
        let r = self.next();
        let v = if r & 3 != 0 { ((r >> 8) % 4) as u8 } else { (r >> 16) as u8 };
        self.rec(&[v]);
        v
    }
    fn u16(&mut self) -> u16 {
        let v = self.next() as u16;
        self.rec(&v.to_le_bytes());
        v
    }
    fn u32(&mut self) -> u32 {
        let v = self.next() as u32;
        self.rec(&v.to_le_bytes());
        v
    }
    fn u64(&mut self) -> u64 {
        let r = self.next();
        // small values often (symbols, indices that have to hit something)
        let v = if r & 1 == 0 { (r >> 8) % 32 } else { r };
        self.rec(&v.to_le_bytes());
        v
    }
    fn i32(&mut self) -> i32 {
        let r = self.next();
        let v = match r & 7 {
            0 => i32::MIN,
            1 => i32::MAX,
            2 | 3 | 4 => ((r >> 8) % 9) as i32 - 4,
            5 => 31 + ((r >> 8) & 1) as i32,
            _ => (r >> 16) as i32,
        };
        self.rec(&v.to_le_bytes());
        v
    }
    fn f64(&mut self) -> f64 {
        let r = self.next();
        let v = match r & 7 {
            0 => f64::NAN,
            1 => ((r >> 8) % 9) as f64 - 4.0,
            2 => (((r >> 8) % 9) as f64 - 4.0) / 2.0,
            3 => [f64::INFINITY, f64::NEG_INFINITY, 0.0, -0.0, 2147483648.0, -2147483649.0, 1e300, -1e300][((r >> 8) & 7) as usize],
            _ => ((r >> 11) as f64) / 1024.0 - 1000.0,
        };
        self.rec(&v.to_le_bytes());
        v
    }
    fn bool(&mut self) -> bool {
        let v = self.next() & 1 == 1;
        self.rec(&[v as u8]);
        v
    }
    fn usize(&mut self) -> usize {
        let v = (self.next() % 8) as usize;
        self.rec(&v.to_le_bytes());
        v
    }
    fn assume(&mut self, cond: bool) {
        if !cond {
            std::panic::panic_any(AssumptionViolated);
        }
    }
}
