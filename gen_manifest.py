#!/usr/bin/env python3
"""Writes MANIFEST.json from plan.py (claims, bounds) and the static text below."""
import json, sys
sys.dont_write_bytecode = True
sys.path.insert(0, '/verif')
import plan

props = plan.build_properties('/verif/harness/src/generated/templates.tsv')
NA = json.load(open('/verif/not_applicable.json'))
TECH = "Kani/CBMC bounded symbolic execution of the real Rust code (SAT, CaDiCaL) over symbolic inputs; unwinding assertions on; counterexamples replayed natively"
LEVEL_NOTE = "Trusted: Kani's MIR->goto translation and CBMC's bit-precise semantics; the stubs listed in the evidence (format!, Backtrace::capture, f64::powf contract); for harnesses on BoundedData the array-backed contract model of the GarnishData trait (harness/src/bounded.rs) and the any_state validity predicate; for program-level harnesses the reference evaluator (harness/src/refmodel.rs) and the concrete (native) run of the real lexer and parser on the template corpus. Bounds are stated per harness in the evidence; nothing is claimed outside them."
checks = []
for pid in sorted(props):
    spec = props[pid]
    checks.append({
        "property_id": pid,
        "quick_cmd": "./check %s --tier quick" % pid,
        "thorough_cmd": "./check %s --tier thorough" % pid,
        "evidence_file": "/verif/evidence/%s.json" % pid,
        "replay_cmd_template": "./check %s --replay {path}" % pid,
        "engine": "kani-cbmc",
        "level_claimed": {"category": "model_checking", "text": "Bounded model checking of the real code: " + spec["claim"] + " Bounds: " + spec.get("bounds", "") + ". Outside the claim: " + spec.get("outside", ""), "design_ref": "DESIGN.md section 6, %s" % pid},
        "level_note": LEVEL_NOTE,
        "technique": TECH + ("; second engine: symbolic execution of the nightly MIR of data/src/data/number.rs into SMT (z3 + cvc5, bit-vectors and IEEE floats, full width) per kernel and operand-kind arm, translator validated against the real build on every run, models replayed natively" if pid in getattr(plan, "SMT", {}) else ""),
    })
m = {
    "version": 1,
    "setup_cmd": "./setup.sh",
    "hooks": {
        "guard": "cfg(any(kani, garnish_verif))",
        "enable": "cargo kani sets --cfg kani for every crate it compiles; the only hook is a cfg(kani) re-export in data/src/basic/mod.rs (StorageSettings, ReallocationStrategy, StorageBlock) so that the store-level harnesses can call the public BasicGarnishData::new_with_settings with small blocks. Harnesses live in /verif/harness with path dependencies on /repo's crates, recompiled from the working tree at every check; the native replay binary is built with RUSTFLAGS=--cfg garnish_verif (same small blocks); ordinary builds never see the hook.",
        "baseline_off_cmd": "cd /repo && cargo test --workspace --no-fail-fast --offline",
        "source_commits": ["b65978f", "fef61db"],
        "add_only": True,
    },
    "engines": [
        {"name": "kani-cbmc", "path": "/verif/harness", "serves_properties": sorted(props), "kind_free_text": "bounded symbolic execution of the compiled Rust code (Kani 0.68 -> CBMC 6.11, CaDiCaL); harness bodies generic over a Nondet source so that every counterexample is replayed natively (dev + release) by harness/src/bin/replay.rs"},
        {"name": "mir-smt", "path": "/verif/smt", "serves_properties": sorted(getattr(plan, "SMT", {})), "kind_free_text": "symbolic interpreter for rustc's MIR dump of the data crate (regenerated from /repo at every run) -> z3 (python API) and cvc5 (SMT-LIB2 text); number kernels of SimpleNumber per operand-kind arm; trusted base = the core-function models listed in the evidence (smt_trusted_base)"},
        {"name": "template-generator", "path": "/verif/gen", "serves_properties": ["C01", "C05", "C06", "C10", "C17", "C18", "C20"], "kind_free_text": "native, concrete run of the real lex + parse on the template corpus; emits the parse-node arrays the program-level harnesses start from (regenerated at every check)"},
    ],
    "checks": checks,
    "not_applicable": NA,
    "notes": "Driver: /verif/check; harness -> property map, tiers, bounds: /verif/plan.py; known findings: /verif/known_findings.json; seeded changes: /verif/seeded/*.",
}
json.dump(m, open('/verif/MANIFEST.json', 'w'), indent=1)
print("wrote MANIFEST.json with", len(checks), "checks;", len(NA), "not applicable")
