#!/bin/bash
# usage: mutant_tests.sh <worktree>  — runs the repo's test suite in <worktree> and reports baseline-passing tests that no longer pass
wt="$1"
cd "$wt" && cargo test --workspace --no-fail-fast --offline 2>&1 | grep -E '^test .* (FAILED|ok)$' | grep ' ok$' | sed 's/^test //; s/ \.\.\. ok$//' | sort -u > /tmp/mt_pass_$$.txt
sort -u /verif/tools/baseline_pass.txt > /tmp/mt_base_$$.txt
comm -23 /tmp/mt_base_$$.txt /tmp/mt_pass_$$.txt > /tmp/mt_lost_$$.txt
n=$(wc -l < /tmp/mt_lost_$$.txt)
echo "baseline-passing tests no longer passing: $n"
head -20 /tmp/mt_lost_$$.txt
rm -f /tmp/mt_pass_$$.txt /tmp/mt_base_$$.txt /tmp/mt_lost_$$.txt
[ "$n" -eq 0 ]
