#!/bin/bash
# usage: tools/sweep.sh <tier> <PROP>...   — runs the checks one after the other, prints their verdict lines
tier="$1"; shift
for p in "$@"; do
  echo "=== $p ($tier) $(date +%H:%M:%S)"
  ./check "$p" --tier "$tier" --no-evidence 2>&1 | grep -E '^(SUMMARY|VIOLATION|KNOWN-FINDING|INCONCLUSIVE|counterexample|NOTE)' | cut -c1-400
  echo "exit=${PIPESTATUS[0]}"
done
