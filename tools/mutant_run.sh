#!/bin/bash
# usage: tools/mutant_run.sh <seed-id> <PROP> [check args...]
# Runs a check against a seeded change WITHOUT touching /repo: scratch worktree of /repo HEAD with the patch applied,
# scratch worktree of /verif HEAD pointed at it (GV_REPO). Both are removed afterwards.
id="$1"; prop="$2"; shift 2
w=/tmp/mr_$id_$$
mkdir -p $w
git -C /repo worktree add -q $w/repo HEAD || exit 9
git -C $w/repo apply /verif/seeded/$id/patch.diff || { echo "patch does not apply"; git -C /repo worktree remove --force $w/repo; exit 9; }
git -C /verif worktree add -q $w/verif HEAD || exit 9
( cd $w/verif && GV_REPO=$w/repo ./check "$prop" --no-evidence "$@" 2>&1 | grep -E '^(SUMMARY|VIOLATION|KNOWN-FINDING|INCONCLUSIVE|counterexample|NOTE)' | cut -c1-300 )
rc=${PIPESTATUS[0]}
mkdir -p /root/mlogs/pb; cp $w/verif/.build/pb_*.log /root/mlogs/pb/ 2>/dev/null
git -C /verif worktree remove --force $w/verif
git -C /repo worktree remove --force $w/repo
rm -rf $w
echo "mutant $id property $prop: done"
