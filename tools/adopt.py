#!/usr/bin/env python3
"""adopt.py <worktree> <seed-id> <property> <demo_cmd> <summary> <needs>
Adapter for round-2 sub-agent output (<worktree>/_out/{patch.diff,demo.rs,notes.txt}): lays it out as
out/m1.{diff,json} + out/m1_demo.rs, reverts the tracked change and hands over to confirm_mutant.py."""
import json, os, shutil, subprocess, sys
wt, sid, prop, demo_cmd, summary, needs = sys.argv[1:7]
o, out = os.path.join(wt, '_out'), os.path.join(wt, 'out')
os.makedirs(out, exist_ok=True)
shutil.copyfile(os.path.join(o, 'patch.diff'), os.path.join(out, 'm1.diff'))
shutil.copyfile(os.path.join(o, 'demo.rs'), os.path.join(out, 'm1_demo.rs'))
files = [l[6:].strip() for l in open(os.path.join(o, 'patch.diff')) if l.startswith('+++ b/')]
json.dump({'property': prop, 'summary': summary, 'needs': needs, 'demo_cmd': demo_cmd, 'files_changed': files}, open(os.path.join(out, 'm1.json'), 'w'), indent=1)
subprocess.run('git checkout -- .', shell=True, cwd=wt, check=True)
sys.exit(subprocess.run([sys.executable, '/verif/tools/confirm_mutant.py', wt, '1', sid]).returncode)
