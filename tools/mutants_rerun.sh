#!/bin/bash
# second pass over the seeded changes the first pass (tools/mutants_all.sh) did not settle, with the harness that
# the native oracle test (same bodies, random inputs, mutated tree) showed to be sensitive to each
log="${1:-/tmp/mutants_rerun.log}"
run() { # id prop tier only
  echo "##### $1 ($2 $3 --only $4) $(date +%H:%M:%S)" >> "$log"
  /verif/tools/mutant_run.sh "$1" "$2" --tier "$3" --only "$4" >> "$log" 2>&1
}
run C17-m1 C17 quick prog_ident_absent_inlist
run C17-m2 C17 quick disp_empty_apply_external
run C11-m1 C11 quick c11_shape_equal_list2_list1
run C18-m1 C18 quick layout_v_list3_lines_trailing
run C18-m2 C18 quick layout_v_list3_line_comments
run C05-m1 C05 thorough prog_and_tis,prog2_and_tis
run C05-m2 C05 thorough prog2_and_group_cond,prog_and_group_cond
run C20-m1 C20 thorough prog2_reapply_top,prog2_reapply_top_inlist
run C10-m2 C10 thorough prog_and_tis,prog_or_tis
run C01-m1 C01 thorough prog_reapply_nested,prog_reapply_nested_inunit
run C15-m1 C15 quick store_basic_readback_x2
echo "##### done $(date +%H:%M:%S)" >> "$log"
