#!/usr/bin/env python3
"""confirm_mutant.py <worktree> <k> <seed-id>
Independently confirm a sub-agent's mutant in its scratch worktree and store it under /verif/seeded/<seed-id>/:
 1. worktree clean; apply out/m<k>.diff
 2. whole test suite: no baseline-passing test lost (tools/mutant_tests.sh)
 3. demo fails with the change
 4. revert; demo passes without it
"""
import json, os, shutil, subprocess, sys
wt, k, sid = sys.argv[1], sys.argv[2], sys.argv[3]
out = os.path.join(wt, 'out')
meta = json.load(open(os.path.join(out, 'm%s.json' % k)))
def sh(cmd, **kw):
    p = subprocess.run(cmd, shell=True, cwd=wt, stdout=subprocess.PIPE, stderr=subprocess.STDOUT, text=True, errors='replace', **kw)
    return p.returncode, p.stdout
rc, o = sh('git status --porcelain --untracked-files=no')
assert o.strip() == '', 'worktree not clean: ' + o
rc, o = sh('git apply out/m%s.diff' % k); assert rc == 0, o
log = {}
rc, o = sh('/verif/tools/mutant_tests.sh %s' % wt, timeout=3000)
log['suite_with_mutant'] = o.strip().splitlines()[-3:]
suite_ok = rc == 0
rc1, o1 = sh(meta['demo_cmd'], timeout=3000)
log['demo_with_mutant_rc'] = rc1
log['demo_with_mutant_tail'] = o1.strip().splitlines()[-8:]
sh('git checkout -- .')
rc2, o2 = sh(meta['demo_cmd'], timeout=3000)
log['demo_without_mutant_rc'] = rc2
log['demo_without_mutant_tail'] = o2.strip().splitlines()[-4:]
failed1 = rc1 != 0 or 'test result: FAILED' in o1 or 'panicked at' in o1 or 'error[' in o1
failed2 = rc2 != 0 or 'test result: FAILED' in o2 or 'panicked at' in o2 or 'error[' in o2
log['demo_fails_with_mutant'] = failed1
log['demo_fails_without_mutant'] = failed2
ok = suite_ok and failed1 and not failed2
print(json.dumps(log, indent=1))
print('CONFIRMED' if ok else 'NOT CONFIRMED')
if ok:
    d = os.path.join('/verif/seeded', sid)
    os.makedirs(d, exist_ok=True)
    shutil.copyfile(os.path.join(out, 'm%s.diff' % k), os.path.join(d, 'patch.diff'))
    for f in os.listdir(out):
        if f.startswith('m%s_demo' % k):
            shutil.copyfile(os.path.join(out, f), os.path.join(d, f.replace('m%s_' % k, '')))
    json.dump({'property': meta['property'], 'summary': meta.get('summary'), 'needs': meta.get('needs'), 'demo_cmd': meta.get('demo_cmd'), 'files_changed': meta.get('files_changed'),
               'confirmed': {'what_i_ran': ['git apply patch.diff in a scratch worktree of /repo HEAD', 'tools/mutant_tests.sh: cargo test --workspace --no-fail-fast --offline, 0 of the 1500 baseline-passing tests lost', 'demo_cmd with the change: fails', 'demo_cmd after git checkout -- . : passes'], 'log': log},
               'detected_by': None}, open(os.path.join(d, 'meta.json'), 'w'), indent=1)
sys.exit(0 if ok else 1)
