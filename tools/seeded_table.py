#!/usr/bin/env python3
"""Rewrites the table of seeded changes in DESIGN.md (between the SEEDED_TABLE markers) from seeded/*/meta.json."""
import json, glob, os, re
rows = []
for f in sorted(glob.glob('/verif/seeded/*/meta.json')):
    m = json.load(open(f))
    sid = f.split('/')[-2]
    runs = m.get('check_runs', [])
    det = m.get('detected_by') or []
    if det:
        verdict = 'caught: ' + ', '.join(sorted(set(d.split(': ')[1] if ': ' in d else d for d in det))[:3]) + ' (check ' + ', '.join(sorted(set(d.split(': ')[0] for d in det if ': ' in d))) + ')'
    elif runs:
        inc = [i for r in runs for i in r.get('inconclusive', [])]
        verdict = 'NOT caught' + (' (inconclusive: ' + '; '.join(i[:70] for i in inc[:2]) + ')' if inc else '')
    else:
        verdict = m.get('not_run_reason', 'not run')
    what = re.sub(r'\s+', ' ', m['summary'])[:150]
    needs = re.sub(r'\s+', ' ', str(m['needs']))[:110]
    rows.append('| %s | %s | %s | %s |' % (sid, what.replace('|', '/'), needs.replace('|', '/'), verdict.replace('|', '/')))
table = '| id | change | needs | result |\n|---|---|---|---|\n' + '\n'.join(rows)
p = '/verif/DESIGN.md'
s = open(p).read()
if 'SEEDED_TABLE_PLACEHOLDER' in s:
    s = s.replace('SEEDED_TABLE_PLACEHOLDER', '<!-- SEEDED_TABLE_BEGIN -->\n' + table + '\n<!-- SEEDED_TABLE_END -->')
else:
    s = re.sub(r'<!-- SEEDED_TABLE_BEGIN -->.*?<!-- SEEDED_TABLE_END -->', lambda _: '<!-- SEEDED_TABLE_BEGIN -->\n' + table + '\n<!-- SEEDED_TABLE_END -->', s, flags=re.S)
open(p, 'w').write(s)
print(len(rows), 'rows')
