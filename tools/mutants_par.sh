#!/bin/bash
# usage: tools/mutants_par.sh <listfile> <logdir> [parallel]
# listfile lines: <seed-id> <PROP> <tier> <only>; one log per line in <logdir>/<seed-id>.<PROP>.log
# (same format as mutants_all.sh's log so that record_detection.py reads the concatenation)
list="$1"; dir="$2"; par="${3:-4}"
mkdir -p "$dir"
run_one() {
  id="$1"; prop="$2"; tier="$3"; only="$4"; dir="$5"
  log="$dir/$id.$prop.log"
  echo "##### $id ($prop $tier --only $only) $(date +%H:%M:%S)" > "$log"
  /verif/tools/mutant_run.sh "$id" "$prop" --tier "$tier" --only "$only" --jobs 3 >> "$log" 2>&1
  echo "finished $id $prop $(date +%H:%M:%S)"
}
export -f run_one
grep -v '^#' "$list" | grep . | xargs -P "$par" -L 1 bash -c 'run_one "$0" "$1" "$2" "$3" "'"$dir"'"'
