#!/bin/bash
# usage: try_mutant.sh <patch.diff> <PROPERTY> [extra check args]   — apply to /repo, run the check, always revert
patch="$1"; prop="$2"; shift 2
cd /repo || exit 9
if ! git diff --quiet; then echo "/repo has uncommitted changes"; exit 9; fi
git apply "$patch" || { echo "patch does not apply"; exit 9; }
cd /verif && ./check "$prop" --no-evidence "$@"; rc=$?
cd /repo && git checkout -- . 
echo "check exit code: $rc"
exit $rc
