#!/usr/bin/env python3
"""Collects per-harness CBMC verification times from the result files of earlier check runs (.build/kani/*/result_output_dir)
into timings.json (harness -> [seconds, status]); used only to decide quick-tier membership by hand (plan.py)."""
import glob, json, os, re, sys
root = os.path.dirname(os.path.dirname(os.path.abspath(__file__)))
out_path = os.path.join(root, "timings.json")
try:
    out = json.load(open(out_path))
except Exception:
    out = {}
for f in glob.glob(os.path.join(root, ".build/kani/*/result_output_dir/*")):
    s = open(f, errors="ignore").read()
    m = re.search(r"Verification Time: ([0-9.]+)s", s)
    if not m:
        continue
    name = os.path.basename(f).split("::")[-1]
    st = "ok" if "VERIFICATION:- SUCCESSFUL" in s else "failed"
    t = round(float(m.group(1)))
    if "--max" in sys.argv:
        if name not in out or t > out[name][0]:
            out[name] = [t, st]
    else:
        out[name] = [t, st]
json.dump(out, open(out_path, "w"), indent=0, sort_keys=True)
print(len(out), "timings")
