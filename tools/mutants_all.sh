#!/bin/bash
# Runs every seeded change against the check of its property (restricted with --only to the harness family that
# is expected to see it, to save time; the full check contains these harnesses). Appends verdicts to the given log.
log="${1:-/tmp/mutants_all.log}"
run() { # id prop tier only
  echo "##### $1 ($2 $3 --only $4) $(date +%H:%M:%S)" >> "$log"
  /verif/tools/mutant_run.sh "$1" "$2" --tier "$3" --only "$4" >> "$log" 2>&1
}
run C09-m1 C09 quick shift
run C09-m2 C09 quick power
run C12-m1 C12 quick numbers
run C12-m2 C12 quick char_lists
run C10-m1 C10 quick c10_truth_and
run C08-m1 C08 quick c08_op_add
run C08-m2 C08 quick disp_access_pair
run C06-m1 C06 quick c08_op_divide
run C07-m1 C07 quick c09_ii_shift_right
run C17-m2 C17 quick disp_empty_apply_external
run C11-m2 C11 quick numbers_mixed
run C11-m1 C11 quick c11_equal_list_vs_list
run C17-m1 C17 thorough prog_ident_in_input
run C10-m2 C10 thorough prog_and_tis
run C05-m1 C05 thorough prog_and_tis
run C05-m2 C05 thorough prog_and_group_cond
run C20-m1 C20 quick prog2_reapply_top
run C18-m1 C18 quick layout_v_list3_lines_trailing
run C18-m2 C18 quick layout_v_list3_line_comments
run C01-m1 C01 thorough prog_reapply
run C15-m1 C15 quick store_basic_readback_x2
run C16-m1 C16 thorough store_simple_list_1
run C16-m2 C16 thorough store_basic_list_p0_unkeyed
run C07-m2 C07 thorough store_simple_list_0
run C06-m2 C06 thorough store_basic_frames_0
run C01-m2 C06 thorough store_basic_frames_0
echo "##### done $(date +%H:%M:%S)" >> "$log"
