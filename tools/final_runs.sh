#!/bin/bash
# runs the quick checks in /verif (writing evidence), one after the other
cd /verif
for p in "$@"; do
  echo "=== $p $(date +%H:%M:%S)" >> /tmp/final.log
  ./check "$p" --tier quick --jobs ${JOBS:-10} 2>&1 | grep -E '^(SUMMARY|VIOLATION|KNOWN-FINDING|INCONCLUSIVE|counterexample|NOTE)' | cut -c1-300 >> /tmp/final.log
  echo "exit=${PIPESTATUS[0]}" >> /tmp/final.log
done
echo "=== done $(date +%H:%M:%S)" >> /tmp/final.log
