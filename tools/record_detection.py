#!/usr/bin/env python3
"""Reads a mutants_all log and records, in seeded/<id>/meta.json, which check run saw the change (detected_by)."""
import json, re, sys, os
log = open(sys.argv[1]).read()
blocks = re.split(r'^##### ', log, flags=re.M)[1:]
for b in blocks:
    head = b.splitlines()[0]
    m = re.match(r'(\S+) \((\S+) (\S+) --only (\S+)\)', head)
    if not m:
        continue
    sid, prop, tier, only = m.groups()
    viol = re.findall(r'^VIOLATION property=(\S+) replay=\S+/(\S+)\.json', b, flags=re.M)
    summ = re.search(r'^SUMMARY .*$', b, flags=re.M)
    inconc = re.findall(r'^INCONCLUSIVE: (\S+): (.*)$', b, flags=re.M)
    d = os.path.join('/verif/seeded', sid if prop != 'C06' or not sid.startswith('C01') else sid)
    mp = os.path.join('/verif/seeded', sid, 'meta.json')
    if not os.path.exists(mp):
        continue
    meta = json.load(open(mp))
    runs = meta.get('check_runs', [])
    runs = [r for r in runs if not (r['property'] == prop and r['only'] == only)]
    runs.append({'cmd': './check %s --tier %s --only %s (scratch copy of /repo with the patch applied: tools/mutant_run.sh)' % (prop, tier, only), 'property': prop, 'only': only,
                 'violations': ['%s: %s' % v for v in viol], 'inconclusive': ['%s: %s' % (a, c[:120]) for a, c in inconc], 'summary': summ.group(0) if summ else None})
    meta['check_runs'] = runs
    det = [r for r in runs if r['violations']]
    meta['detected_by'] = [v for r in det for v in r['violations']] if det else None
    json.dump(meta, open(mp, 'w'), indent=1)
    print(sid, prop, 'DETECTED' if viol else 'not detected', [v[1] for v in viol][:3], [a for a, _ in inconc][:3])
