//! Native evaluation of the real number kernels, used by /verif/smt/run.py for (a) validating the MIR->SMT
//! encoding on concrete operands and (b) replaying solver counterexamples against the real build.
//! stdin: one request per line `op ka va [kb vb]` (k = i: decimal i32, k = f: f64 bits in hex);
//! stdout: one answer per line: `N` (None), `I v`, `F bits`, `B 0|1`, `O -1|0|1|N`, `P` (panicked).
use garnish_lang_simple_data::SimpleNumber;
use garnish_lang_simple_data::SimpleNumber::{Float, Integer};
use garnish_lang_traits::GarnishNumber;
use std::io::BufRead;

fn operand(k: &str, v: &str) -> SimpleNumber {
    match k {
        "i" => Integer(v.parse::<i32>().expect("i32")),
        _ => Float(f64::from_bits(u64::from_str_radix(v, 16).expect("bits"))),
    }
}

fn show(r: Option<SimpleNumber>) -> String {
    match r {
        None => "N".to_string(),
        Some(Integer(v)) => format!("I {}", v),
        Some(Float(f)) => format!("F {:016x}", f.to_bits()),
    }
}

fn eval(parts: &[&str]) -> String {
    let op = parts[0];
    let a = operand(parts[1], parts[2]);
    let b = if parts.len() >= 5 { operand(parts[3], parts[4]) } else { Integer(0) };
    match op {
        "plus" => show(a.plus(b)),
        "subtract" => show(a.subtract(b)),
        "multiply" => show(a.multiply(b)),
        "divide" => show(a.divide(b)),
        "integer_divide" => show(a.integer_divide(b)),
        "remainder" => show(a.remainder(b)),
        "power" => show(a.power(b)),
        "bitwise_and" => show(a.bitwise_and(b)),
        "bitwise_or" => show(a.bitwise_or(b)),
        "bitwise_xor" => show(a.bitwise_xor(b)),
        "bitwise_shift_left" => show(a.bitwise_shift_left(b)),
        "bitwise_shift_right" => show(a.bitwise_shift_right(b)),
        "absolute_value" => show(a.absolute_value()),
        "opposite" => show(a.opposite()),
        "increment" => show(a.increment()),
        "decrement" => show(a.decrement()),
        "bitwise_not" => show(a.bitwise_not()),
        "eq" => format!("B {}", if a == b { 1 } else { 0 }),
        "partial_cmp" => match a.partial_cmp(&b) {
            None => "O N".to_string(),
            Some(std::cmp::Ordering::Less) => "O -1".to_string(),
            Some(std::cmp::Ordering::Equal) => "O 0".to_string(),
            Some(std::cmp::Ordering::Greater) => "O 1".to_string(),
        },
        "to_usize" => format!("U {}", usize::from(a)),
        "to_i32" => format!("I {}", i32::from(a)),
        _ => "?".to_string(),
    }
}

fn main() {
    std::panic::set_hook(Box::new(|_| {}));
    let stdin = std::io::stdin();
    for line in stdin.lock().lines() {
        let line = line.unwrap();
        let parts: Vec<&str> = line.split_whitespace().collect();
        if parts.len() < 3 {
            continue;
        }
        let owned: Vec<String> = parts.iter().map(|s| s.to_string()).collect();
        let r = std::panic::catch_unwind(move || {
            let refs: Vec<&str> = owned.iter().map(|s| s.as_str()).collect();
            eval(&refs)
        });
        println!("{}", r.unwrap_or_else(|_| "P".to_string()));
    }
}
