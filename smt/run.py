#!/usr/bin/env python3
"""MIR -> SMT engine for the loop-free kernels of data/src/data/number.rs (second engine of /verif).

  run.py --property C09|C07|C11|C12 --tier quick|thorough --json out.json

1. dumps the MIR of garnish_lang_simple_data from the CURRENT tree (GV_REPO, default /repo) with the nightly
   toolchain (-Zunpretty=mir, overflow checks on) - the encoding is regenerated at every run;
2. symbolically executes each kernel per operand-kind arm (mirsmt.py) into leaves (path condition, outcome);
3. validates the translator: concrete operands from a boundary lattice go through the encoding (constants
   substituted, simplified to a value) and through the real function (crate smt/numeval, dev build); any
   disagreement makes the whole engine inconclusive (never a pass, never a violation);
4. per query asserts the negated property over the leaves and asks z3 (python API) and cvc5 (SMT-LIB2 text of the
   same assertions); unsat from one and no contradiction from the other = holds for every operand value;
   sat = a model, replayed natively (dev + release) and compared with an exact Python reference; only a
   reproducing model is a violation; z3 and cvc5 disagreeing, or an `(error` line, is inconclusive.
Exit 0 = all queries hold, 1 = a reproducing violation, 2 = inconclusive / engine error.
"""
import argparse, json, math, os, re, struct, subprocess, sys, time, hashlib, shutil

sys.path.insert(0, os.path.dirname(os.path.abspath(__file__)))
ROOT = os.path.dirname(os.path.dirname(os.path.abspath(__file__)))
REPO = os.environ.get("GV_REPO", "/repo")
BUILD = os.path.join(ROOT, ".build")
HARNESS_DIR = os.path.join(ROOT, "harness")

VT_SITE = None
try:
    import z3  # noqa
except ImportError:
    # re-exec under the tooling venv that carries z3-solver
    exe = shutil.which("python3-vt")
    if exe and os.environ.get("GV_SMT_REEXEC") != "1":
        os.environ["GV_SMT_REEXEC"] = "1"
        os.execv(exe, [exe] + sys.argv)
    raise

from mirsmt import (div_lemma, parse_mir, Interp, State, CORE, CORE_DOC, NotEncoded, Int, Flt, Bool, Enum, Ref, Tup, F64, RNE)

MIN32 = -(1 << 31)
MAX32 = (1 << 31) - 1

BIN_OPS = "plus subtract multiply divide integer_divide remainder power bitwise_and bitwise_or bitwise_xor bitwise_shift_left bitwise_shift_right".split()
UN_OPS = "absolute_value opposite increment decrement bitwise_not".split()
REL_OPS = ["eq", "partial_cmp"]
KIND = {0: "i", 1: "f"}


def sh(cmd, **kw):
    p = subprocess.run(cmd, stdout=subprocess.PIPE, stderr=subprocess.STDOUT, text=True, errors="replace", **kw)
    return p.returncode, p.stdout


# ------------------------------------------------------------------ step 1: MIR of the current tree

def dump_mir():
    tdir = os.path.join(BUILD, "mir_target")
    env = dict(os.environ)
    env["CARGO_TARGET_DIR"] = tdir
    env["CARGO_NET_OFFLINE"] = "true"
    env.pop("RUSTFLAGS", None)
    env.pop("RUSTUP_TOOLCHAIN", None)
    # force re-emission: rustc prints nothing when the crate is fresh
    fp = os.path.join(tdir, "debug", ".fingerprint")
    if os.path.isdir(fp):
        for d in os.listdir(fp):
            if d.startswith("garnish_lang_simple_data-"):
                shutil.rmtree(os.path.join(fp, d), ignore_errors=True)
    cmd = ["cargo", "+nightly", "rustc", "--offline", "-p", "garnish_lang_simple_data", "--lib", "--", "-Zunpretty=mir", "-C", "debug-assertions=off", "-C", "overflow-checks=on"]
    p = subprocess.run(cmd, cwd=REPO, env=env, stdout=subprocess.PIPE, stderr=subprocess.PIPE, text=True, errors="replace", timeout=900)
    if p.returncode != 0 or "fn " not in p.stdout:
        raise RuntimeError("MIR dump failed: " + p.stderr[-1500:])
    return p.stdout


def build_numeval():
    """the real kernels, natively: a two-dependency crate (traits + data of the tree under check), dev and release"""
    outs = {}
    crate = os.path.join(ROOT, "smt", "numeval")
    toml = os.path.join(crate, "Cargo.toml")
    t = open(toml).read()
    t2 = re.sub(r'path = "[^"]*/(traits|data)"', lambda m: 'path = "%s/%s"' % (REPO, m.group(1)), t)
    if t2 != t:
        open(toml, "w").write(t2)
    try:
        shutil.copyfile(os.path.join(REPO, "Cargo.lock"), os.path.join(crate, "Cargo.lock"))
    except OSError:
        pass
    for prof, flag in (("dev", []), ("release", ["--release"])):
        env = dict(os.environ)
        env["CARGO_TARGET_DIR"] = os.path.join(BUILD, "numeval")
        env["CARGO_NET_OFFLINE"] = "true"
        env.pop("RUSTFLAGS", None)
        rc, out = sh(["cargo", "build", "--offline"] + flag, cwd=crate, env=env, timeout=1500)
        if rc != 0:
            raise RuntimeError("numeval build failed: " + out[-1500:])
        outs[prof] = os.path.join(BUILD, "numeval", "debug" if prof == "dev" else "release", "gv_numeval")
    return outs


def native_eval(exe, requests):
    """requests: list of (op, [(kind, value)]) with value int or float -> list of answer strings"""
    lines = []
    for op, operands in requests:
        parts = [op]
        for k, v in operands:
            parts += [k, str(v) if k == "i" else "%016x" % struct.unpack("<Q", struct.pack("<d", v))[0]]
        lines.append(" ".join(parts))
    p = subprocess.run([exe], input="\n".join(lines) + "\n", stdout=subprocess.PIPE, stderr=subprocess.DEVNULL, text=True, timeout=120)
    out = p.stdout.split("\n")[:len(lines)]
    if len(out) != len(lines):
        raise RuntimeError("numeval answered %d of %d requests" % (len(out), len(lines)))
    return out


# ------------------------------------------------------------------ step 2: symbolic execution per arm

def find_fn(fns, name):
    c = [f for n, f in fns.items() if re.match(r"^data::number::<impl at [^>]*>::%s$" % name, n) and f.params and "SimpleNumber" in f.params[0][1] and len(f.params) <= 2
         and all("SimpleNumber" in p[1] for p in f.params)]
    if len(c) != 1:
        raise NotEncoded("function %s not found uniquely in the MIR dump (%d candidates)" % (name, len(c)))
    return c[0]


def sym_operand(i, k):
    if k == 0:
        v = z3.BitVec("a%d" % i, 32)
        return v, Enum("SimpleNumber", 0, [Int(v, True)])
    v = z3.FP("f%d" % i, F64)
    return v, Enum("SimpleNumber", 1, [Flt(v)])


def encode(fns, name, kinds, it=None, div_mode="bv"):
    f = find_fn(fns, name)
    it = it or Interp(fns, CORE)
    it.div_mode = div_mode
    vars_, args = [], []
    for i, k in enumerate(kinds):
        v, e = sym_operand(i, k)
        vars_.append(v)
        args.append(e)
    st = State({}, [])
    if f.params[0][1].startswith("&"):
        st.mem[-1] = {"x%d" % i: a for i, a in enumerate(args)}
        args = [Ref(-1, "x%d" % i, []) for i in range(len(args))]
    leaves = [l for _, l in it.run(f, args, st)]
    return vars_, leaves, it


# ------------------------------------------------------------------ reference (Python, exact) for replay and self-test

def py_expected(op, operands):
    """exact reference on concrete operands -> 'N' | ('I', v) | ('F', f) | ('B', b) | ('O', o) | None (= no opinion)"""
    ks = "".join(k for k, _ in operands)
    vs = [v for _, v in operands]

    def fits(v):
        return MIN32 <= v <= MAX32

    def fl(v):
        return ("F", v) if math.isfinite(v) else "N"

    if op in ("eq", "partial_cmp"):
        a, b = vs
        if any(isinstance(x, float) and math.isnan(x) for x in vs):
            return ("B", 0) if op == "eq" else ("O", "N")
        if op == "eq":
            return ("B", 1 if a == b else 0)  # Python compares int with float exactly
        return ("O", -1 if a < b else (1 if a > b else 0))
    if any(isinstance(x, float) and not math.isfinite(x) for x in vs):
        return None
    if ks in ("i", "ii"):
        a = vs[0]
        b = vs[1] if len(vs) > 1 else None
        if op == "plus":
            r = a + b
        elif op == "subtract":
            r = a - b
        elif op == "multiply":
            r = a * b
        elif op in ("divide", "integer_divide", "remainder"):
            if b == 0:
                return "N"
            q = abs(a) // abs(b)
            if (a < 0) != (b < 0):
                q = -q
            if not fits(q):
                return "N"
            r = q if op != "remainder" else a - q * b
        elif op == "bitwise_and":
            r = a & b
        elif op == "bitwise_or":
            r = a | b
        elif op == "bitwise_xor":
            r = a ^ b
        elif op in ("bitwise_shift_left", "bitwise_shift_right"):
            if b < 0 or b > 31:
                return "N"
            if op == "bitwise_shift_left":
                w = (a << b) & 0xFFFFFFFF
                r = w - (1 << 32) if w >= (1 << 31) else w
            else:
                r = a >> b
        elif op == "absolute_value":
            r = abs(a)
        elif op == "opposite":
            r = -a
        elif op == "increment":
            r = a + 1
        elif op == "decrement":
            r = a - 1
        elif op == "bitwise_not":
            r = ~a
        else:
            return None
        return ("I", r) if fits(r) else "N"
    # float / mixed
    fa = float(vs[0])
    fb = float(vs[1]) if len(vs) > 1 else None
    if op.startswith("bitwise"):
        return "N"
    if op == "plus":
        return fl(fa + fb)
    if op == "subtract":
        return fl(fa - fb)
    if op == "multiply":
        try:
            return fl(fa * fb)
        except OverflowError:
            return "N"
    if op == "divide":
        if fb == 0.0:
            return "N"
        try:
            return fl(fa / fb)
        except OverflowError:
            return "N"
    if op == "integer_divide":
        if fb == 0.0:
            return "N"
        try:
            q = fa / fb
        except OverflowError:
            return "N"
        if not math.isfinite(q):
            return "N"
        t = math.trunc(q)
        return ("I", t) if fits(t) else "N"
    if op == "absolute_value":
        return fl(abs(fa))
    if op == "opposite":
        return fl(-fa)
    if op == "increment":
        return fl(fa + 1.0)
    if op == "decrement":
        return fl(fa - 1.0)
    return None


def parse_native(ans):
    p = ans.split()
    if not p:
        return None
    if p[0] == "N":
        return "N"
    if p[0] == "P":
        return "P"
    if p[0] == "I":
        return ("I", int(p[1]))
    if p[0] == "F":
        return ("F", struct.unpack("<d", struct.pack("<Q", int(p[1], 16)))[0])
    if p[0] == "B":
        return ("B", int(p[1]))
    if p[0] == "O":
        return ("O", p[1] if p[1] == "N" else int(p[1]))
    return None


def same_result(x, y):
    if x == y:
        return True
    if isinstance(x, tuple) and isinstance(y, tuple) and x[0] == y[0] == "F":
        return x[1] == y[1] or (math.isnan(x[1]) and math.isnan(y[1]))  # +0.0 == -0.0 accepted
    return False


# ------------------------------------------------------------------ value of a leaf as a comparable record

def leaf_outcome_concrete(leaves, subst):
    """evaluate the leaves under a concrete substitution -> native-style result"""
    hit = None
    for l in leaves:
        c = z3.simplify(z3.substitute(z3.And(l.pc) if l.pc else z3.BoolVal(True), *subst))
        if z3.is_true(c):
            if hit is not None:
                return "OVERLAP"
            hit = l
        elif not z3.is_false(c):
            return "UNDECIDED"
    if hit is None:
        return "NOLEAF"
    if hit.kind == "panic":
        return "P"
    if hit.kind != "ret":
        return "UNREACHABLE"
    v = hit.value

    def conc(e):
        return z3.simplify(z3.substitute(e, *subst))

    if isinstance(v, Bool):
        return ("B", 1 if z3.is_true(conc(v.b)) else 0)
    if isinstance(v, Enum) and v.ty == "Option":
        if v.disc == 0:
            return "N" if True else None
        inner = v.fields[0]
        if isinstance(inner, Enum) and inner.ty == "Ordering":
            return ("O", inner.disc)
        if isinstance(inner, Enum) and inner.ty == "SimpleNumber":
            p = inner.fields[0]
            if inner.disc == 0:
                return ("I", conc(p.bv).as_signed_long())
            fv = conc(p.f)
            return ("F", fp_to_py(fv))
    return "?"


def fp_to_py(fv):
    if z3.is_fp_value(fv) or hasattr(fv, "isNaN"):
        if fv.isNaN():
            return float("nan")
        if fv.isInf():
            return float("-inf") if fv.isNegative() else float("inf")
        if fv.isZero():
            return -0.0 if fv.isNegative() else 0.0
        sign = 1 if fv.sign() else 0
        exp = fv.exponent_as_long(biased=True)
        sig = fv.significand_as_long()
        bits = (sign << 63) | (exp << 52) | sig
        return struct.unpack("<d", struct.pack("<Q", bits))[0]
    raise RuntimeError("not a float value: %s" % fv)


def py_to_fp(x):
    bits = struct.unpack("<Q", struct.pack("<d", x))[0]
    return z3.fpBVToFP(z3.BitVecVal(bits, 64), F64)


def normalise_none_for_cmp(op, r):
    # partial_cmp None is printed 'N' by leaf_outcome_concrete; native prints 'O N'
    if op == "partial_cmp" and r == "N":
        return ("O", "N")
    return r


INT_LATTICE = [MIN32, MIN32 + 1, -65537, -65536, -33, -32, -31, -3, -2, -1, 0, 1, 2, 3, 7, 31, 32, 33, 65535, 65536, 46341, MAX32 - 1, MAX32]
FLT_LATTICE = [0.0, -0.0, 1.0, -1.0, 0.5, -0.25, 1.5, -1.5, 2147483647.0, 2147483648.0, -2147483648.0, -2147483649.0, 2147483647.5, 1e300, -1e300, 5e-324, 1.7976931348623157e308, 3.0, 1e10, -2.5]


def selftest(fns, exe):
    """translator validation: encoding vs real function on a boundary lattice"""
    checked, mismatches, not_encoded = 0, [], []
    reqs, expect = [], []
    for op in BIN_OPS + UN_OPS + REL_OPS:
        arity = 1 if op in UN_OPS else 2
        for kinds in ([(0, 0), (0, 1), (1, 0), (1, 1)] if arity == 2 else [(0,), (1,)]):
            try:
                vars_, leaves, it_ = encode(fns, op, kinds)
            except NotEncoded as e:
                not_encoded.append("%s%s: %s" % (op, kinds, e))
                continue
            if it_.unconstrained:
                not_encoded.append("%s%s: value not modelled (%s): no-panic queries only" % (op, kinds, ", ".join(sorted(set(it_.unconstrained)))))
                continue
            lat = [INT_LATTICE if k == 0 else FLT_LATTICE for k in kinds]
            combos = [(a,) for a in lat[0]] if arity == 1 else [(a, b) for a in lat[0][::2] + lat[0][-1:] for b in lat[1]]
            for vals in combos:
                subst = [(v, z3.BitVecVal(x, 32) if k == 0 else py_to_fp(x)) for v, k, x in zip(vars_, kinds, vals)]
                enc = normalise_none_for_cmp(op, leaf_outcome_concrete(leaves, subst))
                reqs.append((op, [(KIND[k], x) for k, x in zip(kinds, vals)]))
                expect.append(enc)
    answers = native_eval(exe, reqs)
    for (op, operands), enc, ans in zip(reqs, expect, answers):
        nat = parse_native(ans)
        checked += 1
        if not same_result(enc, nat):
            mismatches.append({"op": op, "operands": operands, "encoding": repr(enc), "real": repr(nat)})
    return {"concrete_points": checked, "mismatches": mismatches[:10], "n_mismatches": len(mismatches), "not_encoded": not_encoded}


# ------------------------------------------------------------------ step 4: properties as formulas over leaves

def sx(v):
    return z3.SignExt(32, v)


def fits64(m):
    return z3.And(m >= z3.BitVecVal(MIN32, 64), m <= z3.BitVecVal(MAX32, 64))


def is_none(l):
    return l.kind == "ret" and isinstance(l.value, Enum) and l.value.ty == "Option" and l.value.disc == 0


def some_int(l):
    v = l.value
    if l.kind == "ret" and isinstance(v, Enum) and v.ty == "Option" and v.disc == 1 and isinstance(v.fields[0], Enum) and v.fields[0].ty == "SimpleNumber" and v.fields[0].disc == 0:
        return v.fields[0].fields[0].bv
    return None


def some_flt(l):
    v = l.value
    if l.kind == "ret" and isinstance(v, Enum) and v.ty == "Option" and v.disc == 1 and isinstance(v.fields[0], Enum) and v.fields[0].ty == "SimpleNumber" and v.fields[0].disc == 1:
        return v.fields[0].fields[0].f
    return None


def finite(f):
    return z3.Not(z3.Or(z3.fpIsInf(f), z3.fpIsNaN(f)))


def promote(v, k):
    return z3.fpSignedToFP(RNE, v, F64) if k == 0 else v


def leaf_ok_arith(op, kinds, vars_, l, fresh, it=None):
    """z3 Bool: this leaf's outcome is what C09 demands (given the leaf's path condition)"""
    T, Fa = z3.BoolVal(True), z3.BoolVal(False)
    if l.kind == "unreachable":
        return Fa  # a reachable `unreachable` would be UB; its path condition must be unsatisfiable
    if l.kind == "panic":
        return Fa
    if all(k == 0 for k in kinds):
        a = vars_[0]
        b = vars_[1] if len(vars_) > 1 else None
        A = sx(a)
        B = sx(b) if b is not None else None
        vi = some_int(l)
        none = is_none(l)
        if vi is None and not none:
            return Fa
        V = sx(vi) if vi is not None else None

        def exact(M):
            return z3.Not(fits64(M)) if none else z3.And(fits64(M), V == M)

        if op == "plus":
            return exact(A + B)
        if op == "subtract":
            return exact(A - B)
        if op == "multiply":
            return exact(A * B)
        if op == "absolute_value":
            return exact(z3.If(A < 0, -A, A))
        if op == "opposite":
            return exact(-A)
        if op == "increment":
            return exact(A + 1)
        if op == "decrement":
            return exact(A - 1)
        if op == "bitwise_not":
            return Fa if none else vi == ~a
        if op in ("bitwise_and", "bitwise_or", "bitwise_xor"):
            if none:
                return Fa
            # bit by bit, not through the same word-level operator
            conj = []
            for i in range(32):
                ba, bb, bv = z3.Extract(i, i, a) == 1, z3.Extract(i, i, b) == 1, z3.Extract(i, i, vi) == 1
                want = {"bitwise_and": z3.And(ba, bb), "bitwise_or": z3.Or(ba, bb), "bitwise_xor": z3.Xor(ba, bb)}[op]
                conj.append(bv == want)
            return z3.And(conj)
        if op in ("bitwise_shift_left", "bitwise_shift_right"):
            unit = z3.Or(b < 0, b > 31)
            if none:
                return unit
            if op == "bitwise_shift_left":
                # bit pattern of a * 2^c truncated to 32 bits: written as 32 cases of multiplication by a constant
                want = z3.BitVecVal(0, 32)
                for c in range(31, -1, -1):
                    want = z3.If(b == c, a * z3.BitVecVal((1 << c) & 0xFFFFFFFF, 32), want)
                return z3.And(z3.Not(unit), vi == want)
            # floor(a / 2^c): 64-bit arithmetic shift
            want = z3.Extract(31, 0, A >> z3.ZeroExt(32, b))
            return z3.And(z3.Not(unit), vi == want)
        if op in ("divide", "integer_divide", "remainder"):
            unit = z3.Or(b == 0, z3.And(a == z3.BitVecVal(MIN32, 32), b == z3.BitVecVal(-1, 32)))
            if none:
                return unit
            if it is not None and len(it.div_witness) == 1:
                # the kernel went through exactly one core division whose (q, r) satisfy the division relation (side
                # constraint); the result must itself satisfy the relation, with the core's other half as the witness
                cq, cr = it.div_witness[0]
                if op == "remainder":
                    return z3.And(z3.Not(unit), div_lemma(A, B, cq, V))
                # quotient: the result is the relation's q and that q is an i32 (re-multiplying V*B defeats both solvers)
                return z3.And(z3.Not(unit), fits64(cq), vi == z3.Extract(31, 0, cq))
            q, r = fresh("q", 64), fresh("r", 64)
            return z3.And(z3.Not(unit), z3.Implies(div_lemma(A, B, q, r), V == (r if op == "remainder" else q)))
        raise NotEncoded("no int spec for " + op)
    # float or mixed arms: finite operands are the stated precondition (fresh()'s assumption list)
    fa = promote(vars_[0], kinds[0])
    fb = promote(vars_[1], kinds[1]) if len(vars_) > 1 else None
    none = is_none(l)
    vf = some_flt(l)
    vi = some_int(l)
    if op.startswith("bitwise"):
        return T if none else Fa

    def exactf(r):
        if none:
            return z3.Not(finite(r))
        if vf is None:
            return Fa
        return z3.And(finite(r), vf == r)  # == on FP sorts is structural (bit) equality except NaN, which finite() excludes

    if op == "plus":
        return exactf(z3.fpAdd(RNE, fa, fb))
    if op == "subtract":
        return exactf(z3.fpSub(RNE, fa, fb))
    if op == "multiply":
        return exactf(z3.fpMul(RNE, fa, fb))
    if op == "divide":
        zero = z3.fpIsZero(fb)
        if none:
            return z3.Or(zero, z3.Not(finite(z3.fpDiv(RNE, fa, fb))))
        return z3.And(z3.Not(zero), exactf(z3.fpDiv(RNE, fa, fb)))
    if op == "absolute_value":
        return exactf(z3.fpAbs(fa))
    if op == "opposite":
        return exactf(z3.fpNeg(fa))
    if op == "increment":
        return exactf(z3.fpAdd(RNE, fa, z3.FPVal(1.0, F64)))
    if op == "decrement":
        return exactf(z3.fpSub(RNE, fa, z3.FPVal(1.0, F64)))
    raise NotEncoded("no float spec for " + op)


def leaf_ok_rel(op, kinds, vars_, l):
    Fa = z3.BoolVal(False)
    if l.kind != "ret":
        return Fa
    # natural order of the two numbers: both promoted exactly to f64 (i32 -> f64 is exact)
    if all(k == 0 for k in kinds):
        lt, eq, gt, nan = vars_[0] < vars_[1], vars_[0] == vars_[1], vars_[0] > vars_[1], z3.BoolVal(False)
    else:
        fa, fb = promote(vars_[0], kinds[0]), promote(vars_[1], kinds[1])
        lt, eq, gt = z3.fpLT(fa, fb), z3.fpEQ(fa, fb), z3.fpGT(fa, fb)
        nan = z3.Or(z3.fpIsNaN(fa), z3.fpIsNaN(fb))
    if op == "eq":
        if not isinstance(l.value, Bool):
            return Fa
        return l.value.b == z3.And(z3.Not(nan), eq)
    v = l.value
    if not (isinstance(v, Enum) and v.ty == "Option"):
        return Fa
    if v.disc == 0:
        return nan
    o = v.fields[0].disc
    return z3.And(z3.Not(nan), {-1: lt, 0: eq, 1: gt}[o])


# ------------------------------------------------------------------ solving

def cvc5_check(smt2, timeout):
    exe = shutil.which("cvc5")
    if not exe:
        return "absent", 0.0
    t = time.time()
    try:
        p = subprocess.run([exe, "--lang", "smt2", "--tlimit=%d" % int(timeout * 1000)], input=smt2, stdout=subprocess.PIPE, stderr=subprocess.STDOUT, text=True, timeout=timeout + 10)
        out = p.stdout
    except subprocess.TimeoutExpired:
        return "timeout", time.time() - t
    dt = time.time() - t
    if "(error" in out:
        return "error: " + out.strip()[:160], dt
    first = out.strip().split("\n")[0] if out.strip() else ""
    if first in ("sat", "unsat"):
        return first, dt
    return "unknown", dt


def solve(name, assumptions, bad, z3_timeout, cvc5_timeout):
    """bad: list of z3 Bools, one per leaf: path condition and NOT ok. returns dict"""
    s = z3.Solver()
    s.set("timeout", int(z3_timeout * 1000))
    for a in assumptions:
        s.add(a)
    s.add(z3.Or(bad) if bad else z3.BoolVal(False))
    t = time.time()
    r = s.check()
    dt = time.time() - t
    res = {"z3": str(r), "z3_time_s": round(dt, 3)}
    smt2 = "(set-logic ALL)\n" + s.to_smt2().replace("(set-info :status unknown)", "")
    for fn in ("bvsdiv", "bvsrem", "bvudiv", "bvurem", "bvsmod"):
        smt2 = smt2.replace(fn + "_i", fn)  # z3's internal names for a division whose divisor is known to be non-zero
    if str(r) != "sat":
        c, cdt = cvc5_check(smt2, cvc5_timeout)
        res["cvc5"], res["cvc5_time_s"] = c, round(cdt, 3)
    if str(r) == "sat":
        res["model"] = s.model()
    res["smt2_bytes"] = len(smt2)
    return res


def model_operands(model, vars_, kinds):
    out = []
    for v, k in zip(vars_, kinds):
        mv = model.eval(v, model_completion=True)
        if k == 0:
            out.append(("i", mv.as_signed_long()))
        else:
            out.append(("f", fp_to_py(mv)))
    return out


def run_query(q, fns, exes, z3_timeout, cvc5_timeout):
    """q: dict(name, op, kinds, family, assume_finite, kf) -> result dict"""
    op, kinds = q["op"], q["kinds"]
    t0 = time.time()
    res = {"name": q["name"], "function": "data/src/data/number.rs SimpleNumber::%s, operand kinds %s" % (op, "/".join("Integer" if k == 0 else "Float" for k in kinds)),
           "property": q["what"]}
    try:
        lemma_mode = q["family"] == "arith" and op in ("divide", "integer_divide", "remainder") and all(k == 0 for k in kinds)
        vars_, leaves, it = encode(fns, op, kinds, div_mode="lemma" if lemma_mode else "bv")
    except NotEncoded as e:
        res.update({"verdict": "not encoded: %s" % e, "time_s": 0.0})
        return res
    if it.unconstrained and q["family"] != "nopanic":
        res.update({"verdict": "not encoded: the value of %s is not modelled" % ", ".join(sorted(set(it.unconstrained))), "time_s": 0.0})
        return res
    res["leaves"] = len(leaves)
    res["mir_functions_inlined"] = sorted(it.inlined)
    res["core_models_used"] = sorted(it.used_core)
    counter = [0]
    extra = []

    def fresh(prefix, bits):
        counter[0] += 1
        return z3.BitVec("%s%d" % (prefix, counter[0]), bits)

    assumptions = []
    if q.get("assume_finite"):
        for v, k in zip(vars_, kinds):
            if k == 1:
                assumptions.append(finite(v))
    if q.get("assume"):
        assumptions += q["assume"](vars_, kinds)
    bad = []
    try:
        for l in leaves:
            pc = z3.And(l.pc) if l.pc else z3.BoolVal(True)
            if q["family"] == "nopanic":
                ok = z3.BoolVal(l.kind == "ret")
            elif q["family"] == "rel":
                ok = leaf_ok_rel(op, kinds, vars_, l)
            else:
                ok = leaf_ok_arith(op, kinds, vars_, l, fresh, it)
            bad.append(z3.And(pc, z3.Not(ok)))
    except NotEncoded as e:
        res.update({"verdict": "not encoded: %s" % e, "time_s": 0.0})
        return res
    # leaf coverage: the path conditions must cover every operand value (a sanity check on the interpreter)
    cover = z3.Solver()
    cover.set("timeout", 20000)
    cover.add(z3.Not(z3.Or([z3.And(l.pc) if l.pc else z3.BoolVal(True) for l in leaves])))
    if str(cover.check()) != "unsat":
        res.update({"verdict": "inconclusive: path conditions of the encoding do not provably cover all inputs", "time_s": round(time.time() - t0, 3)})
        return res
    assumptions += it.side
    r = solve(q["name"], assumptions, bad, z3_timeout, min(cvc5_timeout, q.get("cvc5_cap", cvc5_timeout)))
    res["solvers"] = {k: v for k, v in r.items() if k != "model"}
    z, c = r["z3"], r.get("cvc5", "")
    if z == "unsat" and c != "sat" and not str(c).startswith("error"):
        res["verdict"] = "holds"
        res["second_solver_agrees"] = (c == "unsat")
    elif z == "unknown" and c == "unsat":
        res["verdict"] = "holds"
        res["second_solver_agrees"] = False
        res["note"] = "z3 gave no answer in its cap; cvc5 proved unsat"
    elif z == "sat":
        operands = model_operands(r["model"], vars_, kinds)
        res["counterexample"] = {"op": op, "operands": [[k, (v if k == "i" else repr(v))] for k, v in operands]}
        want = py_expected(op, operands)
        reproduced = []
        for prof, exe in exes.items():
            nat = parse_native(native_eval(exe, [(op, operands)])[0])
            res["counterexample"]["real_%s" % prof] = repr(nat)
            if q["family"] == "nopanic":
                if nat == "P":
                    reproduced.append(prof)
            elif want is not None and not same_result(want, nat):
                reproduced.append(prof)
        res["counterexample"]["reference"] = repr(want)
        if reproduced:
            res["verdict"] = "violated"
            res["reproduced_in"] = reproduced
            res["detail"] = "%s(%s): real build gives %s, exact reference %s" % (op, ", ".join("%s %s" % (k, v) for k, v in operands), res["counterexample"]["real_dev"], repr(want))
            if q.get("kf"):
                res["known_finding"] = q["kf"]["id"]
                res["kf_text"] = q["kf"]["text"]
        else:
            res["verdict"] = "inconclusive: solver model does not reproduce against the real build (encoding or specification problem)"
    elif z == "unsat" and c == "sat":
        res["verdict"] = "inconclusive: z3 says unsat, cvc5 says sat"
    else:
        res["verdict"] = "inconclusive: z3 %s, cvc5 %s" % (z, c)
    res["time_s"] = round(time.time() - t0, 3)
    return res


# ------------------------------------------------------------------ query lists

def quotient_fits(vars_, kinds):
    fa, fb = promote(vars_[0], kinds[0]), promote(vars_[1], kinds[1])
    q = z3.fpDiv(RNE, fa, fb)
    return z3.And(z3.fpGT(q, z3.FPVal(-2147483649.0, F64)), z3.fpLT(q, z3.FPVal(2147483648.0, F64)))


def queries_for(prop, tier):
    qs = []
    arms2 = [(0, 0), (0, 1), (1, 0), (1, 1)]
    nm = lambda op, kinds: "%s_%s" % (op, "".join(KIND[k] for k in kinds))
    if prop == "C09":
        for op in [o for o in BIN_OPS if o != "power"]:
            qs.append(dict(name=nm(op, (0, 0)), op=op, kinds=(0, 0), family="arith", cvc5_cap=(10 if op == "multiply" else 10 ** 6), what="Integer x Integer, every pair of i32 values: exact result when it fits i32, None (unit) otherwise; division and remainder through the division lemma a = q*b + r, |r| < |b|, sign(r) = sign(a) with fresh q, r"))
        for op in UN_OPS:
            qs.append(dict(name=nm(op, (0,)), op=op, kinds=(0,), family="arith", what="every i32: exact or None"))
            qs.append(dict(name=nm(op, (1,)), op=op, kinds=(1,), family="arith", assume_finite=True, what="every finite f64: exact IEEE result when finite, None otherwise (bitwise_not: None)"))
        for op in ["bitwise_and", "bitwise_or", "bitwise_xor", "bitwise_shift_left", "bitwise_shift_right"]:
            for kinds in arms2[1:]:
                qs.append(dict(name=nm(op, kinds), op=op, kinds=kinds, family="arith", assume_finite=True, what="a float operand: None"))
        float_ops = ["plus", "subtract", "multiply", "divide"]   # measured: 0.5 - 15 s each (z3 and cvc5 agree)
        for op in float_ops:
            for kinds in arms2[1:]:
                qs.append(dict(name=nm(op, kinds), op=op, kinds=kinds, family="arith", assume_finite=True, optional=True,
                               what="finite operands (all 2^64 bit patterns that are finite), integer promoted exactly: Float(IEEE round-to-nearest result) when finite, None when not finite or (divide) when the divisor is zero"))
    if prop == "C07":
        for op in BIN_OPS:
            for kinds in arms2:
                qs.append(dict(name="nopanic_" + nm(op, kinds), op=op, kinds=kinds, family="nopanic", what="no path of the kernel reaches a panic (overflow check, division by zero inside core) for ANY operand, non-finite floats included"))
        for op in UN_OPS:
            for kinds in [(0,), (1,)]:
                qs.append(dict(name="nopanic_" + nm(op, kinds), op=op, kinds=kinds, family="nopanic", what="no path reaches a panic for any operand"))
        for op in REL_OPS:
            for kinds in arms2:
                qs.append(dict(name="nopanic_" + nm(op, kinds), op=op, kinds=kinds, family="nopanic", what="no path reaches a panic for any operand"))
    if prop == "C12":
        for kinds in arms2:
            qs.append(dict(name=nm("partial_cmp", kinds), op="partial_cmp", kinds=kinds, family="rel", what="PartialOrd of SimpleNumber (behind <, <=, >, >=) is the natural numeric order for every operand pair, all f64 bit patterns included: Less / Equal / Greater exactly as the exactly promoted values compare, None iff an operand is NaN"))
    if prop == "C11":
        for kinds in arms2:
            qs.append(dict(name=nm("eq", kinds), op="eq", kinds=kinds, family="rel", what="PartialEq of SimpleNumber (behind ==) is numeric equality of the exactly promoted values for every operand pair; false when an operand is NaN"))
    return qs


def main():
    ap = argparse.ArgumentParser()
    ap.add_argument("--property", required=True)
    ap.add_argument("--tier", default="quick")
    ap.add_argument("--json", required=True)
    ap.add_argument("--only", default=None)
    args = ap.parse_args()
    out = {"engine": "MIR (rustc nightly -Zunpretty=mir of the current tree) -> symbolic interpreter (smt/mirsmt.py) -> z3 %s python API + cvc5 on the SMT-LIB2 text" % z3.get_version_string(),
           "queries": [], "trusted_base": ["%s := %s" % kv for kv in sorted(CORE_DOC.items())]}
    rc = 0
    try:
        os.makedirs(BUILD, exist_ok=True)
        t = time.time()
        mir = dump_mir()
        out["mir_dump_s"] = round(time.time() - t, 1)
        out["mir_sha256"] = hashlib.sha256(mir.encode()).hexdigest()[:16]
        fns = parse_mir(mir)
        exes = build_numeval()
        st = selftest(fns, exes["dev"])
        out["selftest"] = st
        if st["n_mismatches"]:
            out["error"] = "translator self-test failed on %d of %d concrete points (first: %s): encoding and real function disagree, nothing is concluded" % (st["n_mismatches"], st["concrete_points"], st["mismatches"][0])
            rc = 2
        else:
            zt, ct = (300, 60) if args.tier == "quick" else (900, 300)
            for q in queries_for(args.property, args.tier):
                if args.only and args.only not in q["name"]:
                    continue
                r = run_query(q, fns, exes, zt, ct)
                if q.get("optional") and r["verdict"].startswith("inconclusive"):
                    r["verdict"] = "inconclusive (optional, not counted): " + r["verdict"][14:]
                out["queries"].append(r)
                print("smt %-40s %-10s %6.1fs %s" % (r["name"], r["verdict"][:60], r.get("time_s", 0.0), json.dumps(r.get("solvers", {}))), flush=True)
            if any(r["verdict"] == "violated" and not r.get("known_finding") for r in out["queries"]):
                rc = 1
            elif any(r["verdict"] not in ("holds", "violated") and "optional" not in r["verdict"] for r in out["queries"]):
                rc = 2
    except Exception as e:  # engine error: never a pass
        import traceback
        out["error"] = "%s: %s" % (type(e).__name__, e)
        out["traceback"] = traceback.format_exc()[-1500:]
        rc = 2
    json.dump(out, open(args.json, "w"), indent=1, default=str)
    if out.get("error"):
        print("smt engine error:", out["error"])
    sys.exit(rc)


if __name__ == "__main__":
    main()
