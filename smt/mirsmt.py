"""MIR -> SMT symbolic interpreter for the loop-free number kernels of /repo/data/src/data/number.rs.

Input: the text of `cargo +nightly rustc -p garnish_lang_simple_data --lib -- -Zunpretty=mir` taken from the
CURRENT /repo tree (run.py regenerates it at every run). A function is executed symbolically: integer locals are
z3 bit-vectors of their declared width, bools are z3 Bools, f64 is the IEEE double sort, tuples / enums are Python
records whose discriminants stay concrete (a symbolic discriminant forks the path), references are (frame, local,
projection) places. `switchInt` on a symbolic value forks; the result of a function is a list of leaves
(path condition, 'ret' | 'panic', value). Calls to functions present in the dump are inlined; calls to core are
mapped by CORE (the trusted base, listed in the evidence). Anything not understood raises NotEncoded: the function
is then reported as not encoded, never as passed.
"""
import re
import z3

RNE = z3.RNE()
F64 = z3.Float64()


class NotEncoded(Exception):
    pass


# ------------------------------------------------------------------ values

class Int:
    __slots__ = ("bv", "signed")

    def __init__(self, bv, signed):
        self.bv = bv
        self.signed = signed

    @property
    def bits(self):
        return self.bv.size()

    def __repr__(self):
        return "Int(%s,%s)" % (self.bv, "s" if self.signed else "u")


class Bool:
    __slots__ = ("b",)

    def __init__(self, b):
        self.b = b if not isinstance(b, bool) else z3.BoolVal(b)


class Flt:
    __slots__ = ("f",)

    def __init__(self, f):
        self.f = f


class Tup:
    __slots__ = ("items",)

    def __init__(self, items):
        self.items = list(items)


class Enum:
    """disc is a Python int (variant index); fields the payload of that variant"""
    __slots__ = ("ty", "disc", "fields")

    def __init__(self, ty, disc, fields):
        self.ty, self.disc, self.fields = ty, disc, list(fields)


class Ref:
    __slots__ = ("fid", "local", "path")

    def __init__(self, fid, local, path):
        self.fid, self.local, self.path = fid, local, tuple(path)


class FnItem:
    __slots__ = ("name",)

    def __init__(self, name):
        self.name = name


class Closure:
    __slots__ = ("ty", "fields")

    def __init__(self, ty, fields):
        self.ty, self.fields = ty, list(fields)


UNIT = Tup([])

INT_TYPES = {"i8": (8, True), "i16": (16, True), "i32": (32, True), "i64": (64, True), "isize": (64, True),
             "u8": (8, False), "u16": (16, False), "u32": (32, False), "u64": (64, False), "usize": (64, False)}

VARIANTS = {"Integer": 0, "Float": 1, "None": 0, "Some": 1, "Ok": 0, "Err": 1, "Less": -1, "Equal": 0, "Greater": 1, "Continue": 0, "Break": 1}


def simp(e):
    return z3.simplify(e)


def is_true(e):
    return z3.is_true(simp(e))


def is_false(e):
    return z3.is_false(simp(e))


# ------------------------------------------------------------------ MIR text -> functions

class Fn:
    def __init__(self, name, params, ret, is_const):
        self.name, self.params, self.ret, self.is_const = name, params, ret, is_const
        self.types = {}
        self.blocks = {}


def split_top(s, sep=","):
    out, depth, cur = [], 0, ""
    i = 0
    while i < len(s):
        c = s[i]
        if c in "([{<":
            depth += 1
        elif c in ")]}":
            depth -= 1
        elif c == ">" and not (i > 0 and s[i - 1] in "-="):
            depth -= 1
        if c == sep and depth == 0:
            out.append(cur.strip())
            cur = ""
        else:
            cur += c
        i += 1
    if cur.strip():
        out.append(cur.strip())
    return out


def parse_mir(text):
    fns = {}
    lines = text.splitlines()
    i = 0
    head_fn = re.compile(r"^fn (.*?)\((.*)\) -> (.*) \{$")
    head_const = re.compile(r"^const (.*promoted\[\d+\]): (.*) = \{$")
    while i < len(lines):
        ln = lines[i]
        m = head_fn.match(ln)
        mc = None if m else head_const.match(ln)
        if not m and not mc:
            i += 1
            continue
        if m:
            name, ps, ret = m.group(1), m.group(2), m.group(3)
            params = []
            for p in split_top(ps):
                pm = re.match(r"(_\d+): (.*)$", p)
                if pm:
                    params.append((pm.group(1), pm.group(2)))
            f = Fn(name, params, ret, False)
            for n, t in params:
                f.types[n] = t
        else:
            f = Fn(mc.group(1), [], mc.group(2), True)
        i += 1
        cur = None
        while i < len(lines) and lines[i] != "}":
            s = lines[i].strip()
            lm = re.match(r"let (?:mut )?(_\d+): (.*);$", s)
            bm = re.match(r"(bb\d+)(?: \(cleanup\))?: \{$", s)
            if lm:
                f.types[lm.group(1)] = lm.group(2)
            elif bm:
                cur = []
                f.blocks[bm.group(1)] = cur
            elif cur is not None and s and s != "}" and not s.startswith("//"):
                cur.append(s)
            i += 1
        fns[f.name] = f
        i += 1
    return fns


# ------------------------------------------------------------------ interpreter

class Leaf:
    def __init__(self, pc, kind, value, note=""):
        self.pc, self.kind, self.value, self.note = pc, kind, value, note


class State:
    def __init__(self, mem, pc):
        self.mem, self.pc = mem, pc

    def fork(self, extra):
        return State({k: dict(v) for k, v in self.mem.items()}, self.pc + [extra])


class Interp:
    def __init__(self, fns, core):
        self.fns = fns
        self.core = core
        self.next_fid = 0
        self.used_core = set()
        self.inlined = set()
        self.closure_fn = {}
        self.div_mode = "bv"     # "lemma": i32 division / remainder as a relation on fresh q, r
        self.side = []           # side constraints introduced by core models (lemma mode)
        self.div_witness = []
        self.fresh_count = 0
        self.unconstrained = []  # results left unconstrained by a core model (value queries must not rely on them)
        for f in fns.values():
            if "{closure#" in f.name and f.params:
                self.closure_fn[f.params[0][1]] = f.name

    # ---- name resolution
    def resolve(self, callee):
        """callee text as printed in a call -> Fn of the dump, or None"""
        c = re.sub(r"::<.*>$", "", callee.strip())
        if c in self.fns:
            return self.fns[c]
        m = re.match(r"^<data::number::SimpleNumber as ([\w:]+)>::(\w+)$", c)
        if m:
            cands = [f for n, f in self.fns.items() if re.match(r"^data::number::<impl at [^>]*>::%s$" % re.escape(m.group(2)), n)
                     and f.params and "SimpleNumber" in f.params[0][1]]
            if len(cands) == 1:
                return cands[0]
            if len(cands) > 1:
                raise NotEncoded("ambiguous callee " + callee)
        return None

    def resolve_const(self, text):
        m = re.match(r"^<data::number::SimpleNumber as [\w:]+>::(\w+)::(promoted\[\d+\])$", text)
        if m:
            suffix = "::%s::%s" % (m.group(1), m.group(2))
            cands = [f for n, f in self.fns.items() if f.is_const and n.endswith(suffix) and n.startswith("data::number::")]
            if len(cands) == 1:
                return cands[0]
        if text in self.fns and self.fns[text].is_const:
            return self.fns[text]
        return None

    # ---- places
    def parse_place(self, s):
        s = s.strip()
        pos = [0]

        def place():
            if s[pos[0]] == "_":
                m = re.match(r"_\d+", s[pos[0]:])
                pos[0] += m.end()
                return (m.group(0), [])
            if s[pos[0]] != "(":
                raise NotEncoded("place " + s)
            pos[0] += 1
            if s[pos[0]] == "*":
                pos[0] += 1
                base, path = place()
                if s[pos[0]] != ")":
                    raise NotEncoded("place " + s)
                pos[0] += 1
                return (base, path + [("deref",)])
            base, path = place()
            if s[pos[0]] == ".":
                m = re.match(r"\.(\d+): ", s[pos[0]:])
                if not m:
                    raise NotEncoded("place " + s)
                pos[0] += m.end()
                depth = 0
                while True:
                    c = s[pos[0]]
                    if c in "([{":
                        depth += 1
                    elif c in ")]}":
                        if depth == 0:
                            break
                        depth -= 1
                    pos[0] += 1
                pos[0] += 1
                return (base, path + [("field", int(m.group(1)))])
            m = re.match(r" as (\w+)\)", s[pos[0]:])
            if m:
                pos[0] += m.end()
                return (base, path + [("variant", m.group(1))])
            raise NotEncoded("place " + s)

        base, path = place()
        if pos[0] != len(s):
            raise NotEncoded("place trailing " + s)
        return base, path

    def normalise(self, st, fid, base, path):
        """resolve derefs -> (fid, local, path without derefs)"""
        cur = (fid, base, [])
        for p in path:
            if p[0] == "deref":
                v = self.read_at(st, *cur)
                if not isinstance(v, Ref):
                    raise NotEncoded("deref of non-reference")
                cur = (v.fid, v.local, list(v.path))
            else:
                cur = (cur[0], cur[1], cur[2] + [p])
        return cur

    def read_at(self, st, fid, local, path):
        if local not in st.mem[fid]:
            raise NotEncoded("read of unset local %s" % local)
        v = st.mem[fid][local]
        for p in path:
            if p[0] == "field":
                if isinstance(v, Tup):
                    v = v.items[p[1]]
                elif isinstance(v, (Enum, Closure)):
                    v = v.fields[p[1]]
                else:
                    raise NotEncoded("field of scalar")
            elif p[0] == "variant":
                if not isinstance(v, Enum) or VARIANTS.get(p[1]) != v.disc:
                    raise NotEncoded("downcast to a variant the value is not in")
        return v

    def write_at(self, st, fid, local, path, val):
        def upd(v, path):
            if not path:
                return val
            p = path[0]
            if p[0] == "field":
                if isinstance(v, Tup):
                    items = list(v.items)
                    items[p[1]] = upd(items[p[1]], path[1:])
                    return Tup(items)
                if isinstance(v, Enum):
                    fl = list(v.fields)
                    fl[p[1]] = upd(fl[p[1]], path[1:])
                    return Enum(v.ty, v.disc, fl)
                raise NotEncoded("field write")
            if p[0] == "variant":
                return upd(v, path[1:])
            raise NotEncoded("write path")
        if path:
            st.mem[fid][local] = upd(st.mem[fid][local], path)
        else:
            st.mem[fid][local] = val

    def read_place(self, st, fid, text):
        base, path = self.parse_place(text)
        return self.read_at(st, *self.normalise(st, fid, base, path))

    # ---- constants / operands
    def const(self, text, st):
        t = text.strip()
        m = re.match(r"^(-?\d+)_(i8|i16|i32|i64|isize|u8|u16|u32|u64|usize)$", t)
        if m:
            bits, signed = INT_TYPES[m.group(2)]
            return Int(z3.BitVecVal(int(m.group(1)), bits), signed)
        m = re.match(r"^(-?[\d.]+(?:[eE][-+]?\d+)?)f64$", t)
        if m:
            return Flt(z3.FPVal(float(m.group(1)), F64))
        if t == "true":
            return Bool(True)
        if t == "false":
            return Bool(False)
        if t == "()":
            return UNIT
        if t in CONSTS:
            return CONSTS[t]()
        if re.match(r"^(?:std::option::)?Option::<.*>::None$", t):
            return Enum("Option", 0, [])
        m = re.match(r"^ZeroSized: (\{closure@.*\})$", t)
        if m:
            return Closure(m.group(1), [])   # a closure that captures nothing
        m = re.match(r"^ZeroSized: fn\(.*\) (?:-> .* )?\{(.*)\}$", t)
        if m:
            return FnItem(m.group(1))
        c = self.resolve_const(t)
        if c is not None:
            leaves = self.run(c, [], st)
            if len(leaves) != 1 or leaves[0][1].kind != "ret":
                raise NotEncoded("constant body forks")
            return leaves[0][1].value
        raise NotEncoded("constant " + t)

    def operand(self, st, fid, text):
        t = text.strip()
        for pre in ("no_retag copy ", "copy ", "move "):
            if t.startswith(pre):
                return self.read_place(st, fid, t[len(pre):])
        if t.startswith("const "):
            return self.const(t[6:], st)
        # a bare path: fn item
        if re.match(r"^[\w<]", t) and "::" in t:
            return FnItem(t)
        raise NotEncoded("operand " + t)

    # ---- rvalues
    def binop(self, op, a, b):
        if isinstance(a, Flt) and isinstance(b, Flt):
            f = {"Eq": z3.fpEQ, "Ne": z3.fpNEQ, "Lt": z3.fpLT, "Le": z3.fpLEQ, "Gt": z3.fpGT, "Ge": z3.fpGEQ}.get(op)
            if f:
                return Bool(f(a.f, b.f))
            g = {"Add": z3.fpAdd, "Sub": z3.fpSub, "Mul": z3.fpMul, "Div": z3.fpDiv}.get(op)
            if g:
                return Flt(g(RNE, a.f, b.f))
            raise NotEncoded("float binop " + op)
        if isinstance(a, Bool) and isinstance(b, Bool):
            if op == "Eq":
                return Bool(a.b == b.b)
            if op == "Ne":
                return Bool(a.b != b.b)
            if op == "BitAnd":
                return Bool(z3.And(a.b, b.b))
            if op == "BitOr":
                return Bool(z3.Or(a.b, b.b))
            if op == "BitXor":
                return Bool(z3.Xor(a.b, b.b))
            raise NotEncoded("bool binop " + op)
        if isinstance(a, Int) and isinstance(b, Int):
            s = a.signed
            x, y = a.bv, b.bv
            if op in ("Shl", "Shr", "ShlUnchecked", "ShrUnchecked"):
                # MIR Shl/Shr mask the count to the width of the left operand
                if y.size() < x.size():
                    y = z3.ZeroExt(x.size() - y.size(), y)
                elif y.size() > x.size():
                    y = z3.Extract(x.size() - 1, 0, y)
                y = y & (x.size() - 1)
                if op.startswith("Shl"):
                    return Int(x << y, s)
                return Int((x >> y) if s else z3.LShR(x, y), s)
            if x.size() != y.size():
                raise NotEncoded("width mismatch in " + op)
            if op == "Eq":
                return Bool(x == y)
            if op == "Ne":
                return Bool(x != y)
            if op == "Lt":
                return Bool(x < y if s else z3.ULT(x, y))
            if op == "Le":
                return Bool(x <= y if s else z3.ULE(x, y))
            if op == "Gt":
                return Bool(x > y if s else z3.UGT(x, y))
            if op == "Ge":
                return Bool(x >= y if s else z3.UGE(x, y))
            if op in ("Add", "AddUnchecked"):
                return Int(x + y, s)
            if op in ("Sub", "SubUnchecked"):
                return Int(x - y, s)
            if op in ("Mul", "MulUnchecked"):
                return Int(x * y, s)
            if op == "BitAnd":
                return Int(x & y, s)
            if op == "BitOr":
                return Int(x | y, s)
            if op == "BitXor":
                return Int(x ^ y, s)
            if op in ("AddWithOverflow", "SubWithOverflow", "MulWithOverflow"):
                n = x.size()
                ext = z3.SignExt if s else z3.ZeroExt
                wx, wy = ext(n, x), ext(n, y)
                w = {"A": wx + wy, "S": wx - wy, "M": wx * wy}[op[0]]
                r = z3.Extract(n - 1, 0, w)
                return Tup([Int(r, s), Bool(ext(n, r) != w)])
            if op == "Div":
                return Int(x / y if s else z3.UDiv(x, y), s)
            if op == "Rem":
                return Int(z3.SRem(x, y) if s else z3.URem(x, y), s)
            raise NotEncoded("int binop " + op)
        raise NotEncoded("binop %s on mixed operands" % op)

    def cast(self, v, ty, kind):
        ty = ty.strip()
        if kind == "IntToInt" and isinstance(v, Int) and ty in INT_TYPES:
            bits, signed = INT_TYPES[ty]
            if bits == v.bits:
                return Int(v.bv, signed)
            if bits < v.bits:
                return Int(z3.Extract(bits - 1, 0, v.bv), signed)
            return Int((z3.SignExt if v.signed else z3.ZeroExt)(bits - v.bits, v.bv), signed)
        if kind == "IntToInt" and isinstance(v, Bool) and ty in INT_TYPES:
            bits, signed = INT_TYPES[ty]
            return Int(z3.If(v.b, z3.BitVecVal(1, bits), z3.BitVecVal(0, bits)), signed)
        if kind == "IntToFloat" and isinstance(v, Int) and ty == "f64":
            return Flt(z3.fpSignedToFP(RNE, v.bv, F64) if v.signed else z3.fpUnsignedToFP(RNE, v.bv, F64))
        if kind == "FloatToFloat" and isinstance(v, Flt) and ty == "f64":
            return v
        if kind == "FloatToInt" and isinstance(v, Flt) and ty in INT_TYPES:
            # Rust `as`: NaN -> 0, saturating, truncation toward zero
            bits, signed = INT_TYPES[ty]
            lo = -(1 << (bits - 1)) if signed else 0
            hi = (1 << (bits - 1)) - 1 if signed else (1 << bits) - 1
            flo, fhi = z3.FPVal(float(lo), F64), z3.FPVal(float(hi), F64)
            conv = z3.fpToSBV(z3.RTZ(), v.f, z3.BitVecSort(bits)) if signed else z3.fpToUBV(z3.RTZ(), v.f, z3.BitVecSort(bits))
            if bits > 53:
                # float(hi) rounds up to 2^(bits-1): saturate for >=
                r = z3.If(z3.fpIsNaN(v.f), z3.BitVecVal(0, bits),
                          z3.If(z3.fpLEQ(v.f, flo), z3.BitVecVal(lo, bits),
                                z3.If(z3.fpGEQ(v.f, fhi), z3.BitVecVal(hi, bits), conv)))
            else:
                r = z3.If(z3.fpIsNaN(v.f), z3.BitVecVal(0, bits),
                          z3.If(z3.fpLEQ(v.f, flo), z3.BitVecVal(lo, bits),
                                z3.If(z3.fpGEQ(v.f, fhi), z3.BitVecVal(hi, bits), conv)))
            return Int(r, signed)
        raise NotEncoded("cast %s to %s" % (kind, ty))

    def rvalue(self, st, fid, text):
        t = text.strip()
        m = re.match(r"^&(?:mut |raw const |raw mut )?(.*)$", t)
        if m and not t.startswith("&&"):
            base, path = self.parse_place(m.group(1))
            f2, l2, p2 = self.normalise(st, fid, base, path)
            return Ref(f2, l2, p2)
        m = re.match(r"^discriminant\((.*)\)$", t)
        if m:
            v = self.read_place(st, fid, m.group(1))
            if not isinstance(v, Enum):
                raise NotEncoded("discriminant of non-enum")
            return Int(z3.BitVecVal(v.disc, 64), True)
        m = re.match(r"^(\w+)\((.*)\)$", t)
        if m and m.group(1) in ("Eq", "Ne", "Lt", "Le", "Gt", "Ge", "Add", "Sub", "Mul", "Div", "Rem", "BitAnd", "BitOr", "BitXor", "Shl", "Shr",
                                "AddWithOverflow", "SubWithOverflow", "MulWithOverflow", "AddUnchecked", "SubUnchecked", "MulUnchecked", "ShlUnchecked", "ShrUnchecked"):
            a, b = split_top(m.group(2))
            return self.binop(m.group(1), self.operand(st, fid, a), self.operand(st, fid, b))
        if m and m.group(1) in ("Not", "Neg"):
            v = self.operand(st, fid, m.group(2))
            if m.group(1) == "Not":
                if isinstance(v, Bool):
                    return Bool(z3.Not(v.b))
                if isinstance(v, Int):
                    return Int(~v.bv, v.signed)
            else:
                if isinstance(v, Int):
                    return Int(-v.bv, v.signed)
                if isinstance(v, Flt):
                    return Flt(z3.fpNeg(v.f))
            raise NotEncoded("unary " + t)
        m = re.match(r"^(.*) as ([\w]+) \((\w+)(?:\(.*\))?\)$", t)
        if m:
            return self.cast(self.operand(st, fid, m.group(1)), m.group(2), m.group(3))
        # enum constructors
        m = re.match(r"^data::number::SimpleNumber::(Integer|Float)\((.*)\)$", t)
        if m:
            return Enum("SimpleNumber", VARIANTS[m.group(1)], [self.operand(st, fid, m.group(2))])
        m = re.match(r"^Option::<.*>::None$", t) or re.match(r"^std::option::Option::<.*>::None$", t)
        if m:
            return Enum("Option", 0, [])
        m = re.match(r"^(?:std::option::)?Option::<.*?>::Some\((.*)\)$", t)
        if m:
            return Enum("Option", 1, [self.operand(st, fid, m.group(1))])
        m = re.match(r"^(?:std::cmp::)?Ordering::(Less|Equal|Greater)$", t) or re.match(r"^const (?:std::cmp::)?Ordering::(Less|Equal|Greater)$", t)
        if m:
            return Enum("Ordering", VARIANTS[m.group(1)], [])
        m = re.match(r"^(\{closure@[^}]*\}) \{(.*)\}$", t)
        if m:
            fields = []
            for part in split_top(m.group(2)):
                fields.append(self.operand(st, fid, part.split(":", 1)[1]))
            return Closure(m.group(1), fields)
        if t.startswith("(") and t.endswith(")") and not re.match(r"^\(\*?_\d+", t.replace("(", "(", 1)) :
            inner = t[1:-1]
            parts = split_top(inner)
            if all(re.match(r"^(copy|move|const|no_retag) ", p) for p in parts):
                return Tup([self.operand(st, fid, p) for p in parts])
        return self.operand(st, fid, t)

    # ---- execution
    def run(self, fn, args, st):
        """returns [(state, Leaf)]"""
        fid = self.next_fid
        self.next_fid += 1
        st.mem[fid] = {}
        if len(args) != len(fn.params):
            raise NotEncoded("arity of " + fn.name)
        for (n, _), a in zip(fn.params, args):
            st.mem[fid][n] = a
        if not fn.is_const:
            self.inlined.add(fn.name)
        return self.run_block(fn, fid, "bb0", st, 0)

    def run_block(self, fn, fid, bb, st, depth):
        if depth > 400:
            raise NotEncoded("block budget exceeded (loop?) in " + fn.name)
        stmts = fn.blocks.get(bb)
        if stmts is None:
            raise NotEncoded("missing block " + bb)
        for s in stmts[:-1]:
            self.statement(fn, fid, s, st)
        return self.terminator(fn, fid, stmts[-1], st, depth)

    def statement(self, fn, fid, s, st):
        s = s.rstrip(";")
        if re.match(r"^(StorageLive|StorageDead|FakeRead|PlaceMention|nop|Retag|AscribeUserType|Coverage|ConstEvalCounter|BackwardIncompatibleDropHint)\b", s):
            return
        m = re.match(r"^(\S.*?) = (.*)$", s)
        if not m:
            raise NotEncoded("statement " + s)
        val = self.rvalue(st, fid, m.group(2))
        base, path = self.parse_place(m.group(1))
        self.write_at(st, *self.normalise(st, fid, base, path), val)

    def branch(self, st, cond):
        """-> list of (state, bool) for satisfiable-looking sides (cheap syntactic pruning only)"""
        c = simp(cond)
        if z3.is_true(c):
            return [(st, True)]
        if z3.is_false(c):
            return [(st, False)]
        return [(st.fork(c), True), (st.fork(z3.Not(c)), False)]

    def terminator(self, fn, fid, t, st, depth):
        t = t.rstrip(";")
        if t == "return":
            return [(st, Leaf(st.pc, "ret", st.mem[fid].get("_0", UNIT)))]
        if t == "unreachable":
            return [(st, Leaf(st.pc, "unreachable", None))]
        m = re.match(r"^goto -> (bb\d+)$", t)
        if m:
            return self.run_block(fn, fid, m.group(1), st, depth + 1)
        m = re.match(r"^drop\(.*\) -> \[return: (bb\d+).*\]$", t)
        if m:
            return self.run_block(fn, fid, m.group(1), st, depth + 1)
        m = re.match(r"^switchInt\((.*)\) -> \[(.*)\]$", t)
        if m:
            v = self.operand(st, fid, m.group(1))
            targets = []
            other = None
            for part in split_top(m.group(2)):
                k, b = part.split(": ")
                if k == "otherwise":
                    other = b
                else:
                    targets.append((int(k), b))
            out = []
            if isinstance(v, Bool):
                conds = [(z3.Not(v.b) if k == 0 else v.b, b) for k, b in targets]
            elif isinstance(v, Int):
                conds = [(v.bv == z3.BitVecVal(k, v.bits), b) for k, b in targets]
            else:
                raise NotEncoded("switchInt on non-scalar")
            rest = z3.And([z3.Not(c) for c, _ in conds]) if conds else z3.BoolVal(True)
            if other:
                conds.append((rest, other))
            for c, b in conds:
                c = simp(c)
                if z3.is_false(c):
                    continue
                s2 = st if z3.is_true(c) else st.fork(c)
                out += self.run_block(fn, fid, b, s2, depth + 1)
                if z3.is_true(c):
                    break
            return out
        m = re.match(r"^assert\((!?)(.*?), (\".*\").*\) -> \[success: (bb\d+).*\]$", t)
        if m:
            v = self.operand(st, fid, m.group(2))
            ok = z3.Not(v.b) if m.group(1) else v.b
            out = []
            for s2, side in self.branch(st, ok):
                if side:
                    out += self.run_block(fn, fid, m.group(4), s2, depth + 1)
                else:
                    out.append((s2, Leaf(s2.pc, "panic", None, m.group(3))))
            return out
        m = re.match(r"^(\S.*?) = (.*)\((.*)\) -> \[return: (bb\d+).*\]$", t)
        if m:
            dest, callee, argtext, nxt = m.groups()
            args = [self.operand(st, fid, a) for a in split_top(argtext)] if argtext.strip() else []
            out = []
            for s2, leaf in self.call(callee, args, st):
                if leaf.kind != "ret":
                    out.append((s2, leaf))
                    continue
                base, path = self.parse_place(dest)
                self.write_at(s2, *self.normalise(s2, fid, base, path), leaf.value)
                out += self.run_block(fn, fid, nxt, s2, depth + 1)
            return out
        raise NotEncoded("terminator " + t)

    def call(self, callee, args, st):
        callee = callee.strip()
        # Fn::call on a fn item / closure: (callee_ref, (args...))
        m = re.match(r"^<.* as Fn(?:Mut|Once)?<\(.*\)>>::call(?:_mut|_once)?$", callee)
        if m:
            f = args[0]
            if isinstance(f, Ref):
                f = self.read_at(st, f.fid, f.local, f.path)
            if not isinstance(args[1], Tup):
                raise NotEncoded("Fn::call argument tuple")
            if isinstance(f, FnItem):
                return self.call(f.name, args[1].items, st)
            if isinstance(f, Closure):
                return self.call_closure(f, args[1].items, st)
            raise NotEncoded("Fn::call on unknown callee")
        fn = self.resolve(callee)
        if fn is not None:
            return self.run(fn, args, st)
        key = re.sub(r"::<[^>]*(?:<[^>]*>[^>]*)*>", "", callee).replace("std::ops::", "").replace("std::cmp::", "").replace("std::convert::", "").replace("std::option::", "")
        h = self.core.get(key) or self.core.get(callee)
        if h is None:
            raise NotEncoded("call to " + callee)
        self.used_core.add(key)
        res = h(self, st, args)
        out = []
        for cond, kind, val in res:
            c = simp(cond) if cond is not None else z3.BoolVal(True)
            if z3.is_false(c):
                continue
            s2 = st if z3.is_true(c) else st.fork(c)
            out.append((s2, Leaf(s2.pc, kind, val, key)))
        return out

    def call_closure(self, clo, args, st):
        name = self.closure_fn.get(clo.ty)
        if name is None:
            raise NotEncoded("closure body not in the dump: " + clo.ty)
        return self.run(self.fns[name], [clo] + list(args), st)


# ------------------------------------------------------------------ trusted base: core functions -> SMT-LIB definitions

CONSTS = {
    "core::num::<impl i32>::BITS": lambda: Int(z3.BitVecVal(32, 32), False),
    "core::num::<impl u32>::BITS": lambda: Int(z3.BitVecVal(32, 32), False),
    "core::num::<impl i32>::MAX": lambda: Int(z3.BitVecVal((1 << 31) - 1, 32), True),
    "core::num::<impl i32>::MIN": lambda: Int(z3.BitVecVal(-(1 << 31), 32), True),
    "core::num::<impl u32>::MAX": lambda: Int(z3.BitVecVal((1 << 32) - 1, 32), False),
    "core::f64::<impl f64>::MAX": lambda: Flt(z3.FPVal(1.7976931348623157e308, F64)),
    "core::f64::<impl f64>::MIN": lambda: Flt(z3.FPVal(-1.7976931348623157e308, F64)),
    "core::f64::<impl f64>::INFINITY": lambda: Flt(z3.fpPlusInfinity(F64)),
    "core::f64::<impl f64>::NEG_INFINITY": lambda: Flt(z3.fpMinusInfinity(F64)),
    "core::f64::<impl f64>::NAN": lambda: Flt(z3.fpNaN(F64)),
    "core::f64::<impl f64>::EPSILON": lambda: Flt(z3.FPVal(2.220446049250313e-16, F64)),
}
for _k in list(CONSTS):
    CONSTS[_k.replace("core::num::<impl ", "").replace("core::f64::<impl ", "").replace(">", "")] = CONSTS[_k]   # `i32::BITS` spelling
    CONSTS[_k.replace("core::", "std::")] = CONSTS[_k]


def _unconstrained_f64(it, st, args):
    """libm-backed float functions: total, never panic; the VALUE is left unconstrained (only used by no-panic queries)"""
    it.fresh_count += 1
    it.unconstrained.append("f64")
    return [(None, "ret", Flt(z3.FP("libm%d" % it.fresh_count, F64)))]


def _unconstrained_ovf_pow(it, st, args):
    it.fresh_count += 1
    it.unconstrained.append("overflowing_pow")
    return [(None, "ret", Tup([Int(z3.BitVec("pow%d" % it.fresh_count, 32), True), Bool(z3.Bool("powo%d" % it.fresh_count))]))]


def div_lemma(A, B, q, r):
    """a = q*b + r, |r| < |b|, r = 0 or sign(r) = sign(a); all 64-bit, q within 33 bits so that q*b cannot wrap"""
    absr = z3.If(r < 0, -r, r)
    absB = z3.If(B < 0, -B, B)
    return z3.And(q >= z3.BitVecVal(-(1 << 31), 64), q <= z3.BitVecVal(1 << 31, 64), A == q * B + r, absr < absB, z3.Or(r == 0, (r < 0) == (A < 0)))


def _ovf(op, wrapping=False, checked=False):
    def h(it, st, args):
        a, b = args
        n = a.bits
        if op in ("add", "sub", "mul"):
            wx, wy = z3.SignExt(n, a.bv), z3.SignExt(n, b.bv)
            w = {"add": wx + wy, "sub": wx - wy, "mul": wx * wy}[op]
            r = z3.Extract(n - 1, 0, w)
            o = z3.SignExt(n, r) != w
            if wrapping:
                return [(None, "ret", Int(r, True))]
            if checked:
                return [(z3.Not(o), "ret", Enum("Option", 1, [Int(r, True)])), (o, "ret", Enum("Option", 0, []))]
            return [(None, "ret", Tup([Int(r, True), Bool(o)]))]
        mn = z3.BitVecVal(-(1 << (n - 1)), n)
        m1 = z3.BitVecVal(-1, n)
        zero = b.bv == 0
        ov = z3.And(a.bv == mn, b.bv == m1)
        if it.div_mode == "lemma" and n == 32:
            # Rust's documented semantics of truncating division, as a relation on fresh q, r (no divider circuit)
            it.fresh_count += 1
            q, r = z3.BitVec("core_q%d" % it.fresh_count, 64), z3.BitVec("core_r%d" % it.fresh_count, 64)
            it.side.append(z3.Implies(z3.Not(zero), div_lemma(z3.SignExt(32, a.bv), z3.SignExt(32, b.bv), q, r)))
            # consequence of the relation (|q| <= |a| since |b| >= 1): the quotient leaves i32 only for MIN / -1
            it.side.append(z3.Implies(z3.Not(zero), (q == z3.BitVecVal(1 << 31, 64)) == ov))
            it.div_witness.append((q, r))
            res = z3.Extract(31, 0, q) if op == "div" else z3.Extract(31, 0, r)
        elif op == "div":
            res = z3.If(ov, a.bv, a.bv / b.bv)
        else:
            res = z3.If(ov, z3.BitVecVal(0, n), z3.SRem(a.bv, b.bv))
        if wrapping:
            return [(zero, "panic", None), (z3.Not(zero), "ret", Int(res, True))]
        if checked:
            return [(z3.Or(zero, ov), "ret", Enum("Option", 0, [])), (z3.Not(z3.Or(zero, ov)), "ret", Enum("Option", 1, [Int(res, True)]))]
        return [(zero, "panic", None), (z3.Not(zero), "ret", Tup([Int(res, True), Bool(ov)]))]
    return h


def _ovf_unary(op):
    def h(it, st, args):
        a = args[0]
        n = a.bits
        mn = z3.BitVecVal(-(1 << (n - 1)), n)
        if op == "neg":
            return [(None, "ret", Tup([Int(-a.bv, True), Bool(a.bv == mn)]))]
        return [(None, "ret", Tup([Int(z3.If(a.bv < 0, -a.bv, a.bv), True), Bool(a.bv == mn)]))]
    return h


def _checked_shift(left):
    def h(it, st, args):
        a, c = args
        n = a.bits
        ok = z3.ULT(c.bv, z3.BitVecVal(n, c.bits))
        cc = c.bv if c.bits == n else (z3.Extract(n - 1, 0, c.bv) if c.bits > n else z3.ZeroExt(n - c.bits, c.bv))
        r = (a.bv << cc) if left else ((a.bv >> cc) if a.signed else z3.LShR(a.bv, cc))
        return [(ok, "ret", Enum("Option", 1, [Int(r, a.signed)])), (z3.Not(ok), "ret", Enum("Option", 0, []))]
    return h


def _wrapping_shift(left):
    def h(it, st, args):
        a, c = args
        n = a.bits
        cc = c.bv if c.bits == n else (z3.Extract(n - 1, 0, c.bv) if c.bits > n else z3.ZeroExt(n - c.bits, c.bv))
        cc = cc & (n - 1)
        r = (a.bv << cc) if left else ((a.bv >> cc) if a.signed else z3.LShR(a.bv, cc))
        return [(None, "ret", Int(r, a.signed))]
    return h


def _try_from_i32_u32(it, st, args):
    a = args[0]
    ok = a.bv >= 0
    return [(ok, "ret", Enum("Result", 0, [Int(a.bv, False)])), (z3.Not(ok), "ret", Enum("Result", 1, [UNIT]))]


def _result_ok(it, st, args):
    r = args[0]
    if r.disc == 0:
        return [(None, "ret", Enum("Option", 1, [r.fields[0]]))]
    return [(None, "ret", Enum("Option", 0, []))]


def _and_then(it, st, args):
    o, f = args
    if o.disc == 0:
        return [(None, "ret", Enum("Option", 0, []))]
    if isinstance(f, Closure):
        leaves = it.call_closure(f, [o.fields[0]], st)
    elif isinstance(f, FnItem):
        leaves = it.call(f.name, [o.fields[0]], st)
    else:
        raise NotEncoded("and_then callee")
    out = []
    for s2, leaf in leaves:
        extra = s2.pc[len(st.pc):]
        out.append((z3.And(extra) if extra else None, leaf.kind, leaf.value))
    return out


def _call_callable(it, st, f, args):
    if isinstance(f, Closure):
        return it.call_closure(f, args, st)
    if isinstance(f, FnItem):
        return it.call(f.name, args, st)
    raise NotEncoded("callee of a combinator")


def _opt_filter(it, st, args):
    o, f = args
    if o.disc == 0:
        return [(None, "ret", Enum("Option", 0, []))]
    it.next_fid += 1
    tmp = -1000 - it.next_fid
    st.mem[tmp] = {"t": o.fields[0]}
    out = []
    for s2, leaf in _call_callable(it, st, f, [Ref(tmp, "t", [])]):
        extra = s2.pc[len(st.pc):]
        c = z3.And(extra) if extra else z3.BoolVal(True)
        if leaf.kind != "ret":
            out.append((c, leaf.kind, leaf.value))
            continue
        out.append((z3.And(c, leaf.value.b), "ret", Enum("Option", 1, [o.fields[0]])))
        out.append((z3.And(c, z3.Not(leaf.value.b)), "ret", Enum("Option", 0, [])))
    return out


def _opt_map(it, st, args):
    o, f = args
    if o.disc == 0:
        return [(None, "ret", Enum("Option", 0, []))]
    out = []
    for s2, leaf in _call_callable(it, st, f, [o.fields[0]]):
        extra = s2.pc[len(st.pc):]
        c = z3.And(extra) if extra else None
        out.append((c, leaf.kind, Enum("Option", 1, [leaf.value]) if leaf.kind == "ret" else leaf.value))
    return out


def _try_branch_option(it, st, args):
    o = args[0]
    if not (isinstance(o, Enum) and o.ty == "Option"):
        raise NotEncoded("Try::branch on a non-Option")
    if o.disc == 1:
        return [(None, "ret", Enum("ControlFlow", 0, [o.fields[0]]))]
    return [(None, "ret", Enum("ControlFlow", 1, [Enum("Option", 0, [])]))]


def _from_residual_option(it, st, args):
    return [(None, "ret", Enum("Option", 0, []))]


def _deref_all(it, st, v):
    while isinstance(v, Ref):
        v = it.read_at(st, v.fid, v.local, v.path)
    return v


def _ordering(lt, eq, gt, nan=None):
    out = [(lt, "ret", Enum("Option", 1, [Enum("Ordering", -1, [])])),
           (eq, "ret", Enum("Option", 1, [Enum("Ordering", 0, [])])),
           (gt, "ret", Enum("Option", 1, [Enum("Ordering", 1, [])]))]
    if nan is not None:
        out.append((nan, "ret", Enum("Option", 0, [])))
    return out


def _partial_cmp_i32(it, st, args):
    a, b = _deref_all(it, st, args[0]), _deref_all(it, st, args[1])
    return _ordering(a.bv < b.bv, a.bv == b.bv, a.bv > b.bv)


def _partial_cmp_f64(it, st, args):
    a, b = _deref_all(it, st, args[0]), _deref_all(it, st, args[1])
    return _ordering(z3.fpLT(a.f, b.f), z3.fpEQ(a.f, b.f), z3.fpGT(a.f, b.f), z3.Or(z3.fpIsNaN(a.f), z3.fpIsNaN(b.f)))


def _eq_ref(it, st, args):
    a, b = _deref_all(it, st, args[0]), _deref_all(it, st, args[1])
    if isinstance(a, Int):
        return [(None, "ret", Bool(a.bv == b.bv))]
    if isinstance(a, Flt):
        return [(None, "ret", Bool(z3.fpEQ(a.f, b.f)))]
    raise NotEncoded("eq on non-scalar")


def _f64_from_i32(it, st, args):
    return [(None, "ret", Flt(z3.fpSignedToFP(RNE, args[0].bv, F64)))]


def _f64_bin(f):
    def h(it, st, args):
        return [(None, "ret", Flt(f(RNE, args[0].f, args[1].f)))]
    return h


def _f64_is_infinite(it, st, args):
    return [(None, "ret", Bool(z3.fpIsInf(args[0].f)))]


def _f64_is_finite(it, st, args):
    return [(None, "ret", Bool(z3.Not(z3.Or(z3.fpIsInf(args[0].f), z3.fpIsNaN(args[0].f)))))]


def _f64_is_nan(it, st, args):
    return [(None, "ret", Bool(z3.fpIsNaN(args[0].f)))]


def _f64_abs(it, st, args):
    return [(None, "ret", Flt(z3.fpAbs(args[0].f)))]


def _f64_neg(it, st, args):
    return [(None, "ret", Flt(z3.fpNeg(args[0].f)))]


def _f64_max(it, st, args):
    a, b = args[0].f, args[1].f
    # f64::max: if one is NaN the other is returned
    r = z3.If(z3.fpIsNaN(a), b, z3.If(z3.fpIsNaN(b), a, z3.If(z3.fpLT(a, b), b, a)))
    return [(None, "ret", Flt(r))]


def _i32_max(it, st, args):
    a, b = args
    return [(None, "ret", Int(z3.If(a.bv >= b.bv, a.bv, b.bv) if a.signed else z3.If(z3.UGE(a.bv, b.bv), a.bv, b.bv), a.signed))]


CORE = {
    "core::num::<impl i32>::overflowing_add": _ovf("add"),
    "core::num::<impl i32>::overflowing_sub": _ovf("sub"),
    "core::num::<impl i32>::overflowing_mul": _ovf("mul"),
    "core::num::<impl i32>::overflowing_div": _ovf("div"),
    "core::num::<impl i32>::overflowing_rem": _ovf("rem"),
    "core::num::<impl i32>::wrapping_add": _ovf("add", wrapping=True),
    "core::num::<impl i32>::wrapping_sub": _ovf("sub", wrapping=True),
    "core::num::<impl i32>::wrapping_mul": _ovf("mul", wrapping=True),
    "core::num::<impl i32>::wrapping_div": _ovf("div", wrapping=True),
    "core::num::<impl i32>::wrapping_rem": _ovf("rem", wrapping=True),
    "core::num::<impl i32>::checked_add": _ovf("add", checked=True),
    "core::num::<impl i32>::checked_sub": _ovf("sub", checked=True),
    "core::num::<impl i32>::checked_mul": _ovf("mul", checked=True),
    "core::num::<impl i32>::checked_div": _ovf("div", checked=True),
    "core::num::<impl i32>::checked_rem": _ovf("rem", checked=True),
    "core::num::<impl i32>::overflowing_neg": _ovf_unary("neg"),
    "core::num::<impl i32>::overflowing_abs": _ovf_unary("abs"),
    "core::num::<impl i32>::checked_shl": _checked_shift(True),
    "core::num::<impl i32>::checked_shr": _checked_shift(False),
    "core::num::<impl i32>::wrapping_shl": _wrapping_shift(True),
    "core::num::<impl i32>::wrapping_shr": _wrapping_shift(False),
    "<u32 as TryFrom<i32>>::try_from": _try_from_i32_u32,
    "Result::ok": _result_ok,
    "Option::and_then": _and_then,
    "Option::filter": _opt_filter,
    "<Option<data::number::SimpleNumber> as Try>::branch": _try_branch_option,
    "<Option<i32> as Try>::branch": _try_branch_option,
    "<Option<u32> as Try>::branch": _try_branch_option,
    "<Option<f64> as Try>::branch": _try_branch_option,
    "<Option<data::number::SimpleNumber> as FromResidual<Option<Infallible>>>::from_residual": _from_residual_option,
    "Option::map": _opt_map,
    "<i32 as PartialOrd>::partial_cmp": _partial_cmp_i32,
    "<f64 as PartialOrd>::partial_cmp": _partial_cmp_f64,
    "<&i32 as PartialEq>::eq": _eq_ref,
    "<&f64 as PartialEq>::eq": _eq_ref,
    "<i32 as PartialEq>::eq": _eq_ref,
    "<f64 as PartialEq>::eq": _eq_ref,
    "<f64 as From<i32>>::from": _f64_from_i32,
    "<f64 as Add>::add": _f64_bin(z3.fpAdd),
    "<f64 as Sub>::sub": _f64_bin(z3.fpSub),
    "<f64 as Mul>::mul": _f64_bin(z3.fpMul),
    "<f64 as Div>::div": _f64_bin(z3.fpDiv),
    "core::f64::<impl f64>::is_infinite": _f64_is_infinite,
    "core::f64::<impl f64>::is_finite": _f64_is_finite,
    "core::f64::<impl f64>::is_nan": _f64_is_nan,
    "core::f64::<impl f64>::abs": _f64_abs,
    "<f64 as Neg>::neg": _f64_neg,
    "core::f64::<impl f64>::max": _f64_max,
    "<f64 as Rem>::rem": _unconstrained_f64,
    "f64::<impl f64>::powf": _unconstrained_f64,
    "std::f64::<impl f64>::powf": _unconstrained_f64,
    "f64::<impl f64>::powi": _unconstrained_f64,
    "core::num::<impl i32>::overflowing_pow": _unconstrained_ovf_pow,
    "<i32 as Ord>::max": _i32_max,
}

CORE_DOC = {
    "core::num::<impl i32>::overflowing_add": "(low 32 bits of the 64-bit sum, flag = sign-extended result differs from the 64-bit sum)",
    "core::num::<impl i32>::overflowing_sub": "same with the 64-bit difference",
    "core::num::<impl i32>::overflowing_mul": "same with the 64-bit product",
    "core::num::<impl i32>::overflowing_div": "panics on divisor 0; (MIN, true) for MIN / -1; else (q, false) - q = bvsdiv in the self-test and no-panic queries; in the C09 value queries q, r are FRESH 64-bit variables constrained by the division relation a = q*b + r, |r| < |b|, r = 0 or sign(r) = sign(a) (Rust's documented truncating division; that the relation determines q and r uniquely, and that q = 2^31 only for MIN / -1, are facts of arithmetic stated to the solver, not checked by it)",
    "core::num::<impl i32>::overflowing_rem": "panics on divisor 0; (0, true) for MIN % -1; else (r, false), r as above (bvsrem in the self-test)",
    "wrapping_* / checked_* of add sub mul div rem": "same arithmetic, wrapped result / None on overflow or zero divisor",
    "core::num::<impl i32>::overflowing_neg": "(bvneg, x == MIN)",
    "core::num::<impl i32>::overflowing_abs": "(ite(x < 0, bvneg x, x), x == MIN)",
    "core::num::<impl i32>::checked_shl": "Some(bvshl) iff count <u 32",
    "core::num::<impl i32>::checked_shr": "Some(bvashr) iff count <u 32",
    "core::num::<impl i32>::wrapping_shl": "bvshl by (count & 31)",
    "core::num::<impl i32>::wrapping_shr": "bvashr by (count & 31)",
    "<u32 as TryFrom<i32>>::try_from": "Ok(same bits) iff x >=s 0",
    "Result::ok": "Ok(v) -> Some(v), Err -> None",
    "Option::and_then": "None -> None, Some(v) -> the closure's MIR body on v (filter, map likewise)",
    "<i32 as PartialOrd>::partial_cmp": "Some(Less/Equal/Greater) by bvslt / =",
    "<f64 as PartialOrd>::partial_cmp": "fp.lt / fp.eq / fp.gt, None iff an operand is NaN",
    "<f64 as From<i32>>::from": "to_fp RNE signed (exact for 32 bits)",
    "<f64 as Add>::add": "fp.add RNE (likewise sub, mul, div)",
    "core::f64::<impl f64>::is_infinite": "fp.isInfinite (is_finite: not inf and not NaN)",
    "FloatToInt cast": "NaN -> 0, saturating, fp.to_sbv RTZ",
    "<f64 as Rem>::rem, f64::powf, i32::overflowing_pow": "total functions that never panic; their VALUE is an unconstrained fresh variable - used by the no-panic queries only (value queries for %, ** stay with Kani)",
}
