#!/bin/bash
# Run once after a fresh restore, offline. Builds the template generator and runs it (real lex + parse of
# /repo on templates.txt -> harness/src/generated), then builds the native replay and witness-search binaries (dev + release).
# Every check regenerates and rebuilds what it needs from /repo's working tree anyway.
set -u
cd "$(dirname "$0")"
export CARGO_NET_OFFLINE=true
mkdir -p .build evidence replays harness/src/generated
cp -f /repo/Cargo.lock harness/Cargo.lock 2>/dev/null || true
cp -f /repo/Cargo.lock gen/Cargo.lock 2>/dev/null || true
( cd gen && CARGO_TARGET_DIR=../.build/gen cargo run --offline --quiet -- ../templates.txt ../harness/src/generated ) || echo "setup: template generation failed"
( cd harness && RUSTFLAGS="--cfg garnish_verif" CARGO_TARGET_DIR=../.build/native_hook cargo build --offline --bin replay --bin witness_search 2>&1 | tail -2 )
( cd harness && RUSTFLAGS="--cfg garnish_verif" CARGO_TARGET_DIR=../.build/native_hook cargo build --offline --release --bin replay --bin witness_search 2>&1 | tail -2 )
exit 0
