#!/bin/bash
# Run once after a fresh restore, offline: builds the native replay binary and warms the Kani
# dependency build of one shard directory. Every check rebuilds what it needs anyway.
set -u
cd "$(dirname "$0")"
export CARGO_NET_OFFLINE=true
mkdir -p .build evidence replays
cp -f /repo/Cargo.lock harness/Cargo.lock 2>/dev/null || true
( cd harness && CARGO_TARGET_DIR=../.build/native cargo build --offline --bin replay 2>&1 | tail -2 )
( cd harness && CARGO_TARGET_DIR=../.build/native cargo build --offline --release --bin replay 2>&1 | tail -2 )
exit 0
