"""Which harnesses decide which property, per tier, with the bounds and assumptions reported as evidence.

A harness dict: name (function name in harness/src/proofs.rs), group (module in proofs.rs), tier
('quick' harnesses run in both tiers, 'thorough' only in the thorough tier), desc, optional
timeout / cbmc_args / optional (a thorough harness that may not finish: reported inconclusive, not part
of the claim, does not fail the run).
"""

QUICK_TIMEOUT = 300      # s per harness (quick-tier membership is set from measurements well below this)
THOROUGH_TIMEOUT = 1800  # s per harness
SHARD_SIZE = 24          # harnesses per cargo-kani invocation
MAX_PARALLEL_SHARDS = 4

STUBS = [
    "std::fmt::format -> String::new() (Kani only; all error messages are format!; no property is about message text)",
    "std::backtrace::Backtrace::capture -> Backtrace::disabled() (Kani only; DataError::new captures a backtrace)",
    "f64::powf -> IEEE-754 contract as a nondeterministic function: for finite operands NaN iff base < 0 and exponent not an integer, else any non-NaN value (Kani only; replaces CBMC's approximate pow)",
]

FIELD_SENS = ["--max-field-sensitivity-array-size", "2048"]


def H(name, group, tier="quick", desc="", **kw):
    d = {"name": name, "group": group, "tier": tier, "desc": desc}
    d.update(kw)
    return d


# ------------------------------------------------------------------------------------------- C09

def _c09():
    hs = []
    q = lambda n, d, **kw: hs.append(H(n, "c09", "quick", d, **kw))
    t = lambda n, d, **kw: hs.append(H(n, "c09", "thorough", d, **kw))
    q("c09_ii_plus", "Integer+Integer, all 2^64 pairs, vs i64 sum: exact or None")
    q("c09_ii_subtract", "Integer-Integer, all pairs, vs i64")
    q("c09_ii_multiply", "Integer*Integer, all pairs, vs i64 product")
    q("c09_ii_divide", "Integer/Integer, all pairs: None iff b==0 or MIN/-1, else truncating quotient (division relation in i64)")
    q("c09_ii_integer_divide", "Integer//Integer, all pairs, same oracle")
    q("c09_ii_remainder_unit_conditions", "Integer%Integer, all pairs: None exactly for b==0 and MIN%-1; integer otherwise")
    q("c09_ii_remainder_small_divisor", "Integer%Integer value for |b|<=64, a full width")
    t("c09_ii_power_small_exponent", "Integer**e for e in 0..3, base full width, vs i128", optional=True)
    q("c09_ii_power_small_base", "Integer**e for e in 4..31, |base|<=8, vs saturating i64 loop")
    q("c09_ii_power_negative_exponent", "negative exponent -> None for every base")
    q("c09_i_unary", "abs/opposite/increment/decrement/not on every i32 vs i64")
    q("c09_ii_bitwise", "and/or/xor on all pairs vs per-bit truth tables")
    q("c09_ii_shift_left", "a<<c for all a, all c: None iff c outside 0..31 else low 32 bits of a*2^c")
    q("c09_ii_shift_right", "a>>c for all a, all c: None iff c outside 0..31 else floor(a/2^c)")
    for w, wd in (("ff", "Float,Float"), ("if", "Integer,Float"), ("fi", "Float,Integer")):
        q("c09_%s_plus" % w, "%s plus, all finite operands: Float(a+b) when finite else None; promotion i32->f64" % wd)
        q("c09_%s_subtract" % w, "%s subtract, all finite operands" % wd)
        q("c09_%s_multiply_m36" % w, "%s multiply, operands with <=16 explicit mantissa bits (all exponents/signs)" % wd)
        t("c09_%s_multiply_full" % w, "%s multiply, every finite operand" % wd, optional=True)
        for op in ("divide", "integer_divide"):
            q("c09_%s_%s_m36_pow2" % (w, op), "%s %s: dividend <=16 explicit mantissa bits, divisor +-2^k (all exponents), zero divisor -> None" % (wd, op))
            q("c09_%s_%s_m48" % (w, op), "%s %s: both operands <=4 explicit mantissa bits, all exponents" % (wd, op))
            t("c09_%s_%s_m44" % (w, op), "%s %s: both operands <=8 explicit mantissa bits" % (wd, op), optional=True)
            t("c09_%s_%s_m36_m48" % (w, op), "%s %s: 16 / 4 explicit mantissa bits" % (wd, op), optional=True)
        q("c09_%s_integer_divide_kf_saturates" % w, "witness of the recorded finding: quotient outside i32 is saturated instead of unit")
        q("c09_%s_remainder" % w, "%s remainder, all finite operands: None on zero divisor, else finite float or None" % wd)
        q("c09_%s_power" % w, "%s power, all finite operands: None on negative exponent, result never NaN/inf (powf = its IEEE contract as a nondeterministic function; counterexamples replayed against the real powf)" % wd)
        q("c09_%s_bitwise_is_unit" % w, "%s: every bitwise op and shift -> None" % wd)
    q("c09_f_unary", "abs/opposite/increment/decrement exact, bitwise_not None, every finite f64")
    return {
        "claim": "Every GarnishNumber operation of SimpleNumber returns the exact result when representable and None otherwise; integer kernels at full 32-bit width, float kernels within the mantissa bounds named per harness.",
        "functions": ["data/src/data/number.rs: do_op, <SimpleNumber as GarnishNumber>::{plus, subtract, multiply, divide, integer_divide, power, remainder, absolute_value, opposite, increment, decrement, bitwise_not, bitwise_and, bitwise_or, bitwise_xor, bitwise_shift_left, bitwise_shift_right}",
                      "runtime/src/runtime/arithmetic.rs: perform_op, perform_unary_op (None -> unit), runtime/src/runtime/bitwise.rs (via c09_rt_* harnesses on BoundedData)"],
        "bounds": "integers: full width (power: exponent<=3 x full base [thorough], exponent 4..31 x |base|<=8; remainder value: |divisor|<=64 in Kani, full width in the SMT engine); floats: finite inputs; plus/subtract/remainder/power/unary full width; multiply <=16 explicit mantissa bits (full width thorough); divide and // : (16 bits / power of two) and (4 bits / 4 bits), all exponents",
        "outside": "exactness of powf and float % against libm (only finite-or-unit is claimed); float multiply/divide beyond the mantissa bounds; integer power with |base|>8 and exponent>3; non-finite float inputs (no operation produces them)",
        "assumptions": ["float operands are finite (literals are finite and every operation filters non-finite results — which is itself part of this check)"],
        "harnesses": hs,
    }


PROPERTIES = {
    "C09": _c09(),
}

GENERATORS = {}

SMT = {}
