"""Which harnesses decide which property, per tier, with the bounds and assumptions reported as evidence.

A harness dict: name (function name in harness/src/proofs.rs), group (module in proofs.rs), tier
('quick' harnesses run in both tiers, 'thorough' only in the thorough tier), desc, optional
timeout / cbmc_args / optional (a thorough harness that may not finish: reported inconclusive, not part
of the claim, does not fail the run).
"""

QUICK_TIMEOUT = 900      # s per harness (quick-tier membership is set from measurements well below this)
THOROUGH_TIMEOUT = 1800
# program-level harnesses: 2-5 min each on an idle machine, 3x that when other checks run beside them
TMPL_TIMEOUT = 2400  # s per harness
SHARD_SIZE = 24          # harnesses per cargo-kani invocation
MAX_PARALLEL_SHARDS = 3
QUICK_SHARD_SIZE = 40    # quick tier: one invocation per (cbmc_args, timeout) group

STUBS = [
    "std::fmt::format -> String::new() (Kani only; all error messages are format!; no property is about message text)",
    "std::backtrace::Backtrace::capture -> Backtrace::disabled() (Kani only; DataError::new captures a backtrace)",
    "f64::powf -> IEEE-754 contract as a nondeterministic function: for finite operands NaN iff base < 0 and exponent not an integer, else any non-NaN value (Kani only; replaces CBMC's approximate pow)",
]

FIELD_SENS = ["--max-field-sensitivity-array-size", "2048"]
# store-level harnesses: DataError holds a std Backtrace whose drop glue (loops over frames / symbols) is
# unreachable (Backtrace::capture is stubbed to a disabled backtrace) but not provably so for symex; bound it
# by name instead of by the harness-wide unwind value. An unwinding assertion still guards the bound.
STORE_ARGS = FIELD_SENS + ["--unwindset", "_RINvNtCs8xvirJzNMvV_4core3ptr9drop_glueSNtNtCs3GJ6w2eqr8A_3std9backtrace15BacktraceSymbolEBG_.0:1,_RINvNtCs8xvirJzNMvV_4core3ptr9drop_glueSNtNtCs3GJ6w2eqr8A_3std9backtrace14BacktraceFrameEBG_.0:1"]


def H(name, group, tier="quick", desc="", **kw):
    d = {"name": name, "group": group, "tier": tier, "desc": desc}
    d.update(kw)
    return d


# ------------------------------------------------------------------------------------------- C09

def _c09():
    return _c09_impl()


def _c09_impl():
    hs = []
    q = lambda n, d, **kw: hs.append(H(n, "c09", "quick", d, **kw))
    t = lambda n, d, **kw: hs.append(H(n, "c09", "thorough", d, **kw))
    q("c09_ii_plus", "Integer+Integer, all 2^64 pairs, vs i64 sum: exact or None")
    q("c09_ii_subtract", "Integer-Integer, all pairs, vs i64")
    q("c09_ii_multiply", "Integer*Integer, all pairs, vs i64 product")
    q("c09_ii_divide", "Integer/Integer, all pairs: None iff b==0 or MIN/-1, else truncating quotient (division relation in i64)")
    q("c09_ii_integer_divide", "Integer//Integer, all pairs, same oracle")
    q("c09_ii_remainder_unit_conditions", "Integer%Integer, all pairs: None exactly for b==0 and MIN%-1; integer otherwise")
    q("c09_ii_remainder_small_divisor", "Integer%Integer value for |b|<=64, a full width")
    t("c09_ii_power_small_exponent", "Integer**e for e in 0..3, base full width, vs i128", optional=True)
    q("c09_ii_power_small_base", "Integer**e for e in 4..31, |base|<=8, vs saturating i64 loop")
    q("c09_ii_power_negative_exponent", "negative exponent -> None for every base")
    q("c09_i_unary", "abs/opposite/increment/decrement/not on every i32 vs i64")
    q("c09_ii_bitwise", "and/or/xor on all pairs vs per-bit truth tables")
    q("c09_ii_shift_left", "a<<c for all a, all c: None iff c outside 0..31 else low 32 bits of a*2^c")
    q("c09_ii_shift_right", "a>>c for all a, all c: None iff c outside 0..31 else floor(a/2^c)")
    for w, wd in (("ff", "Float,Float"), ("if", "Integer,Float"), ("fi", "Float,Integer")):
        q("c09_%s_plus" % w, "%s plus, all finite operands: Float(a+b) when finite else None; promotion i32->f64" % wd)
        q("c09_%s_subtract" % w, "%s subtract, all finite operands" % wd)
        q("c09_%s_multiply_m36" % w, "%s multiply, operands with <=16 explicit mantissa bits (all exponents/signs)" % wd)
        t("c09_%s_multiply_full" % w, "%s multiply, every finite operand" % wd, optional=True)
        for op in ("divide", "integer_divide"):
            q("c09_%s_%s_m36_pow2" % (w, op), "%s %s: dividend <=16 explicit mantissa bits, divisor +-2^k (all exponents), zero divisor -> None" % (wd, op))
            q("c09_%s_%s_m48" % (w, op), "%s %s: both operands <=4 explicit mantissa bits, all exponents" % (wd, op))
            t("c09_%s_%s_m44" % (w, op), "%s %s: both operands <=8 explicit mantissa bits" % (wd, op), optional=True)
            t("c09_%s_%s_m36_m48" % (w, op), "%s %s: 16 / 4 explicit mantissa bits" % (wd, op), optional=True)
        q("c09_%s_integer_divide_kf_saturates" % w, "witness of the recorded finding: quotient outside i32 is saturated instead of unit")
        q("c09_%s_remainder" % w, "%s remainder, all finite operands: None on zero divisor, else finite float or None" % wd)
        q("c09_%s_power" % w, "%s power, all finite operands: None on negative exponent, result never NaN/inf (powf = its IEEE contract as a nondeterministic function; counterexamples replayed against the real powf)" % wd)
        q("c09_%s_bitwise_is_unit" % w, "%s: every bitwise op and shift -> None" % wd)
    q("c09_f_unary", "abs/opposite/increment/decrement exact, bitwise_not None, every finite f64")
    hs += num_op_harnesses()
    return {
        "claim": "Every GarnishNumber operation of SimpleNumber returns the exact result when representable and None otherwise; integer kernels at full 32-bit width, float kernels within the mantissa bounds named per harness.",
        "functions": ["data/src/data/number.rs: do_op, <SimpleNumber as GarnishNumber>::{plus, subtract, multiply, divide, integer_divide, power, remainder, absolute_value, opposite, increment, decrement, bitwise_not, bitwise_and, bitwise_or, bitwise_xor, bitwise_shift_left, bitwise_shift_right}",
                      "runtime/src/runtime/arithmetic.rs: perform_op, perform_unary_op (None -> unit), runtime/src/runtime/bitwise.rs (via c09_rt_* harnesses on BoundedData)"],
        "bounds": "integers: full width (power: exponent<=3 x full base [thorough], exponent 4..31 x |base|<=8; remainder value: |divisor|<=64 in Kani, full width in the SMT engine); floats: finite inputs; plus/subtract/remainder/power/unary full width; multiply <=16 explicit mantissa bits (full width thorough); divide and // : (16 bits / power of two) and (4 bits / 4 bits), all exponents",
        "outside": "exactness of powf and float % against libm (only finite-or-unit is claimed); float multiply/divide beyond the mantissa bounds; integer power with |base|>8 and exponent>3; non-finite float inputs (no operation produces them)",
        "assumptions": ["float operands are finite (literals are finite and every operation filters non-finite results — which is itself part of this check)"],
        "harnesses": hs,
    }


# ------------------------------------------------------------------------------------------- shared one-step families

TAGS = "unit number type char char_list byte byte_list symbol symbol_list pair range concatenation slice partial list expression external true false custom".split()
NUM_BIN = "add subtract multiply divide integer_divide power remainder bitwise_and bitwise_or bitwise_xor bitwise_shift_left bitwise_shift_right".split()
NUM_UN = "opposite absolute_value bitwise_not".split()
STEP_PLAIN = "put put_value push_value update_value start_side_effect end_side_effect jump_to reapply end_expression make_pair concat partial_apply type_of type_equal make_range make_start_exclusive_range make_end_exclusive_range make_exclusive_range".split()
TRUTH = "jump_if_true jump_if_false and or not tis xor".split()
DISP_BIN = "access apply apply_type".split()
DISP_UN = "empty_apply access_left_internal access_right_internal access_length_internal".split()

STATE_NOTE = "pre-state = any_state: cells with symbolic type tag (all 20), payload and links, constrained only by the validity predicate state::cell_valid (links point downwards, range ends are numbers, slices are (sliceable, range), list extents inside their pools, valid chars)"


def num_op_harnesses(tier="quick"):
    return [H("c08_op_%s" % o, "step", tier, "%s on two operands of symbolic type (20 x 20), integers from {-4..4, MIN, MAX, 31, 32}: defer protocol, None->unit, arity" % o) for o in NUM_BIN] + \
           [H("c08_op_%s" % o, "step", tier, "%s on one operand of symbolic type, full-width integer: defer protocol, None->unit, arity" % o) for o in NUM_UN]


def step_harnesses(names=STEP_PLAIN, tier="quick"):
    return [H("step_%s" % o, "step", tier, "%s from any_state: exact effect on registers / value stack / frames / cursor" % o) for o in names]


def truth_harnesses(tier="quick"):
    return [H("c10_truth_%s" % o, "step", tier, "%s on a value of symbolic type (all 20): behaves as is_false(t) := t in {Unit, False}; logical results are booleans" % o) for o in TRUTH]


def disp_harnesses(ops, tier="quick", tags=TAGS, **kw):
    out = []
    for o in ops:
        for t in tags:
            out.append(H("disp_%s_%s" % (o, t), "dispatch", tier, "%s with left operand of type %s (symbolic contents, lists of length 0..2) and right operand of symbolic type (all 20) or the left operand itself: result Ok, arity, defer_op iff the combination is not in the golden DEFINED table, protocol of the call" % (o, t), **kw))
    return out


def retier(hs, tier):
    return [dict(h, tier=tier) for h in hs]


def _c08():
    qn = ["c08_op_%s" % o for o in "add subtract divide power bitwise_shift_left opposite".split()]
    hs = [dict(h, tier="quick" if h["name"] in qn else "thorough") for h in num_op_harnesses()]
    hs += [dict(h, tier="quick" if h["name"] in ("step_make_pair", "step_type_equal", "step_make_range", "step_make_exclusive_range") else "thorough") for h in step_harnesses("make_pair concat partial_apply type_of type_equal make_range make_start_exclusive_range make_end_exclusive_range make_exclusive_range".split())]
    qa = "pair list char_list byte_list symbol_list range concatenation number symbol expression".split()
    hs += disp_harnesses(["access", "apply"], tags=qa)
    hs += disp_harnesses(["access", "apply"], tier="thorough", tags=[t for t in TAGS if t not in qa])
    hs += disp_harnesses(["apply_type"] + DISP_UN, tier="thorough")
    return {
        "claim": "For every instruction that dispatches on operand types, one step from an arbitrary valid state returns Ok, leaves exactly one result, calls defer_op exactly once with (instruction, left, right) in source order iff the type combination is not defined (golden tables in harness/src/bodies/dispatch.rs), pushes unit when the host declines and leaves the host's value untouched on top when it accepts. Contract model of the data trait (BoundedData), scripted host.",
        "functions": ["runtime/src/runtime/arithmetic.rs perform_op, perform_unary_op", "runtime/src/runtime/bitwise.rs", "runtime/src/runtime/access.rs access", "runtime/src/runtime/apply.rs apply, empty_apply, apply_internal, narrow_range", "runtime/src/runtime/casting.rs type_cast, type_of, list_from_*, primitive_cast", "runtime/src/runtime/internals.rs", "runtime/src/runtime/list.rs get_access_addr, access_with_integer, access_with_symbol, index_*", "runtime/src/runtime/range.rs", "runtime/src/runtime/pair.rs, concat.rs, partial.rs", "runtime/src/runtime/equality.rs type_equal", "traits/src/helpers/concatenation.rs", "runtime/src/execute.rs execute_current_instruction (dispatch of the instruction under test)"],
        "bounds": "one instruction step; " + STATE_NOTE + "; list-like values of length 0..2; data model capacity 10 cells; numbers are integers (full width for unary ops and dispatching instructions, {-4..4, MIN, MAX, 31, 32} for binary number ops whose oracle recomputes the arithmetic); left operand type concrete per harness for the traversing instructions (20 harnesses per instruction), right operand type symbolic",
        "outside": "the two shipped stores (this is the contract model; store-level harnesses are listed under C07/C16); nesting deeper than one level below the operands; lists longer than 2; float payloads; comparison and equality instructions (never deferred by design: C11, C12)",
        "assumptions": ["the data object honours the GarnishData contract as modelled by harness/src/bounded.rs", "host callbacks push exactly one value when they accept (README)", STATE_NOTE],
        "harnesses": hs,
    }


def _c10():
    hs = truth_harnesses()
    return {
        "claim": "Exactly the unit value and False are false: JumpIfTrue, JumpIfFalse, And, Or, Xor, Not and Tis classify a value of every one of the 20 types the same way; the five logical instructions produce booleans; And/Or fall through with a decided boolean or jump to the right operand's code without leaving anything behind.",
        "functions": ["runtime/src/runtime/logical.rs and, or, xor, not, tis, is_true_value", "runtime/src/runtime/jumps.rs jump_if_true, jump_if_false", "runtime/src/execute.rs execute_current_instruction"],
        "bounds": "one instruction step; tested value = a cell of symbolic type (all 20 tags) with symbolic payload and links; exhaustive over the type, so the truth table itself is complete on the contract model",
        "outside": "the two shipped stores' get_data_type; evaluation order / short-circuit over whole programs is decided by the template harnesses (c10_prog_*)",
        "assumptions": [STATE_NOTE],
        "harnesses": hs,
    }


def _c06():
    qn = "add divide power bitwise_shift_left".split()
    qs = "put push_value update_value end_side_effect jump_to reapply end_expression make_pair type_of make_range".split()
    hs = [dict(h, tier="quick" if h["name"] in ["step_%s" % x for x in qs] else "thorough") for h in step_harnesses()]
    hs += [dict(h, tier="quick" if any(h["name"] == "c08_op_%s" % o for o in qn + ["opposite"]) else "thorough") for h in num_op_harnesses()]
    hs += [dict(h, tier="quick" if h["name"] in ("c10_truth_and", "c10_truth_jump_if_true", "c10_truth_xor") else "thorough") for h in truth_harnesses()]
    qt = "pair list expression partial".split()
    hs += disp_harnesses(["access", "apply"], tags=qt)
    hs += disp_harnesses(["access", "apply"], tier="thorough", tags=[t for t in TAGS if t not in qt])
    hs += disp_harnesses(["apply_type"] + DISP_UN, tier="thorough")
    # Equal / NotEqual on written-out shapes: the worklist they keep on the operand stack must be gone however early they decide
    eqq = ("c11_shape_equal_list2_list1", "c11_shape_equal_list3_unit_mid", "c11_shape_equal_list_pair_unit", "c11_shape_not_equal_nested_pairs")
    hs += [dict(h, tier="quick" if h["name"] in eqq else "thorough") for h in _c11()["harnesses"] if h["name"].startswith("c11_shape_")]
    hs += STORE_FRAMES
    return {
        "claim": "Arity lemma: one step of every instruction from an arbitrary valid state that returns Ok changes the register, value-stack and frame depths by exactly the instruction's fixed arity, leaves the registers below its operands untouched, and hands back any registers it borrowed as a worklist.",
        "functions": ["runtime/src/execute.rs execute_current_instruction", "runtime/src/runtime/*.rs (every instruction)", "traits/src/helpers/concatenation.rs iterate_concatenation_mut_with_method"],
        "bounds": "one instruction step per harness; " + STATE_NOTE + "; capacity 10 cells; lists of length 0..2",
        "outside": "whole-program balance on all paths is decided by the template harnesses (c06_prog_*); the shipped stores' own register/frame bookkeeping (BasicGarnishData::push_frame/pop_frame) is covered only by the store-level harnesses when present",
        "assumptions": [STATE_NOTE, "enough operands are on the register stack (a built program guarantees it: C06 all-paths runs)"],
        "harnesses": hs,
    }


MISMATCH = [("unit", "unit"), ("symbol", "number"), ("number", "char"), ("char_list", "byte_list"), ("pair", "pair"), ("list", "list"), ("true", "false"), ("number", "unit"), ("char", "char_list"), ("symbol", "symbol")]


def _c12():
    hs = []
    for op in "less_than less_than_or_equal greater_than greater_than_or_equal".split():
        for c, what in (("numbers", "two numbers: any i32 / any f64 incl. NaN, infinities, -0.0, subnormals; mixed int/float"), ("chars", "two chars (all scalar values)"), ("bytes", "two bytes"), ("char_lists", "two char lists of length 0..3, all chars"), ("byte_lists", "two byte lists of length 0..3"), ("other", "any other pair of operand types (symbolic tags, 20 x 20 minus the comparable pairs)")):
            if c == "other":
                hs.append(H("c12_%s_%s" % (op, c), "rel", "thorough", "%s on %s: false, never an error" % (op, what), timeout=1800, optional=True))
            else:
                hs.append(H("c12_%s_%s" % (op, c), "rel", "quick", "%s on %s: agrees with the natural order (numeric / lexicographic with the shorter prefix first); unit when a float is NaN; never an error" % (op, what)))
        for l, r in MISMATCH:
            hs.append(H("c12_%s_mismatch_%s_%s" % (op, l, r), "rel", "quick" if (l, r) in (("symbol", "number"), ("char_list", "byte_list"), ("pair", "pair"), ("char", "char_list")) else "thorough", "%s on (%s, %s) operands with symbolic contents: false, nothing deferred, never an error" % (op, l, r)))
    return {
        "claim": "LessThan, LessThanOrEqual, GreaterThan and GreaterThanOrEqual agree with the natural total order on two numbers (integers and floats mixed, full width, every f64), two chars, two bytes, two char lists and two byte lists (length 0..3); yield unit when a float operand is NaN and false on every other pair of operand types; never fail. Since each instruction is compared with the same reference order, trichotomy, <=/> duality and a<b iff b>a follow.",
        "functions": ["runtime/src/runtime/comparison.rs less_than, less_than_or_equal, greater_than, greater_than_or_equal, perform_comparison, cmp_list", "data/src/data/number.rs PartialOrd / PartialEq for SimpleNumber", "runtime/src/execute.rs"],
        "bounds": "one instruction step on the contract model; lists of length 0..3; numbers full width",
        "outside": "lists longer than 3; slices; the two shipped stores' get_char_list_item / get_byte_list_item (SimpleGarnishData returns Err past the end: DESIGN.md section 8)",
        "assumptions": ["contract model of the data trait (get_*_list_item answers Ok(None) past the end)"],
        "harnesses": hs,
    }


EQ_SCALAR = "unit true false number char byte symbol symbol_list char_list byte_list".split()
SHAPES = [("pair_pair", "(n0 = n1) vs (n2 = n3)"), ("pair_pair_shared", "(n0 = n1) vs (n0 = n3), first component shared"), ("pair_self", "the same pair twice"), ("nested_pairs", "((n0 = n1) = n2) vs ((n3 = n4) = n5)"), ("list2_list2", "(n0 n1) vs (n2 n3)"), ("list2_list1", "(n0 n1) vs (n2): longer LEFT operand"), ("list1_list2", "(n0) vs (n1 n2)"), ("empty_empty", "two empty lists"), ("list2_concat_list_item", "(n0 n1) vs ((n2) <> n3)"), ("concat_items_list2", "(n0 <> n1) vs (n2 n3)"), ("concat_lists_concat_items", "((n0) <> (n1)) vs (n2 <> n3)"), ("list_of_pair", "((n0 = n1),) vs ((n2 = n3),)"), ("pair_with_symbol", "(n0 = :s) vs (n2 = n3)"), ("list3_concat", "(n0 n1 n2) vs ((n3 n4) <> n5)"), ("list3_unit_mid", "(n0 () n2) vs (n3 n4 n5): a unit leaf in the middle, the comparison decides while item pairs are still queued"), ("list_pair_unit", "((n0 = ()) n1) vs ((n2 = n3) n4)")]
EQ_STRUCT = [("pair", "pair"), ("list", "list"), ("list", "concatenation"), ("concatenation", "list"), ("concatenation", "concatenation"), ("pair", "list")]


def _c11():
    hs = []
    what = "result == the reference structural equality (numbers numerically, char/byte vs one-element list, pairs component-wise, lists and concatenations as flat item sequences), exactly one boolean left, registers below untouched"
    for t in EQ_SCALAR:
        q = t in ("number", "char", "char_list", "symbol", "unit")
        hs.append(H("c11_equal_%s" % t, "rel", "quick" if q else "thorough", "Equal: left operand of type %s (symbolic contents), right operand of SYMBOLIC type among the types C11 lists, or the left operand itself: %s" % (t, what)))
        hs.append(H("c11_not_equal_%s" % t, "rel", "quick" if t in ("number", "char_list") else "thorough", "NotEqual, same operands: the negation"))
    hs.append(H("c11_equal_numbers_mixed", "rel", "quick", "Equal on two numbers of any representation (any i32 / any f64 incl. NaN, infinities, -0.0; mixed): numeric equality"))
    hs.append(H("c11_not_equal_numbers_mixed", "rel", "quick", "NotEqual on the same: the negation"))
    for nm, what2 in SHAPES:
        hs.append(H("c11_shape_equal_%s" % nm, "rel", "quick", "Equal on the concrete shape %s; leaf payloads symbolic (full i32): %s" % (what2, what)))
        hs.append(H("c11_shape_not_equal_%s" % nm, "rel", "quick" if nm in ("list2_list1", "nested_pairs") else "thorough", "NotEqual on the same shape"))
    for l, r in EQ_STRUCT:
        for leaves in ("numbers", "symbols", "mixed"):
            q = False
            hs.append(H("c11_equal_%s_vs_%s_%s" % (l, r, leaves), "rel", "quick" if q else "thorough", "Equal: %s vs %s (or the same value twice); leaf values are %s with symbolic payloads, shared between the operands; lists of length 0..2, items symbolic: %s" % (l, r, leaves, what), timeout=1800, optional=True))
            hs.append(H("c11_not_equal_%s_vs_%s_%s" % (l, r, leaves), "rel", "thorough", "NotEqual, same operands", timeout=1800, optional=True))
    return {
        "claim": "Equal holds exactly when the reference structural equality (harness/src/bodies/relations.rs ref_eq, written from the property statement) holds, NotEqual is its negation, both leave exactly one boolean and the registers below untouched however early they decide. Reflexivity is covered by passing the same value twice, symmetry and transitivity follow from agreement with the (symmetric, transitive) reference on both operand orders.",
        "functions": ["runtime/src/runtime/equality.rs equal, not_equal, perform_equality_check, data_equal, compare_*, push_iterator_values, match_last_iter_values", "data/src/data/number.rs PartialEq for SimpleNumber", "runtime/src/execute.rs"],
        "bounds": "one instruction step on the contract model; operand types restricted to those C11 lists (unit, booleans, numbers, chars, bytes, symbols, symbol lists, char lists, byte lists, pairs, lists, concatenations); left operand type concrete per harness, right operand type symbolic; list-like values of length 0..2; nesting depth 2 below the operands; integer payloads full width",
        "outside": "ranges, slices, partials, expressions, externals, types, custom values; float payloads inside structures; deeper or longer values; the shipped stores' iterators",
        "assumptions": ["contract model of the data trait, incl. its flat concatenation iterator"],
        "harnesses": hs,
    }


def _c16():
    SH = ["()", "(v)", "(k0 = v, k1 = s0)", "(v, k0 = v, s0)", "(k1 = s0, (v = k1), k0 = v)", "((v), k0 = v)"]
    hs = []
    ORC = "item k at index k, unit outside 0..n-1 (never an error), value of the keyed pair or unit"
    for nm, what in (("access", "Access"), ("apply", "Apply")):
        for sh in range(6):
            for bn, bw in (("index", "a symbolic integer index (full i32)"), ("symbol", "a symbolic symbol (full u64)")):
                q = (nm == "access" and sh in (0, 3, 4)) or (nm == "apply" and sh == 4)
                hs.append(H("c16_%s_%s_list_s%d" % (nm, bn, sh), "rel", "quick" if q else "thorough", "%s on the list %s (keys k0 != k1 symbolic u64, values symbolic) with %s: %s" % (what, SH[sh], bw, ORC)))
    for sh in range(6):
        hs.append(H("c16_length_list_s%d" % sh, "rel", "quick" if sh in (0, 4) else "thorough", "length of the list %s == n" % SH[sh]))
    for sh, sp in ((2, 0), (3, 1), (4, 2), (2, 2)):
        for bn in ("index", "symbol"):
            hs.append(H("c16_access_%s_concat_s%d_split%d" % (bn, sh, sp), "rel", "quick" if (sh, sp) in ((4, 2), (3, 1)) else "thorough", "Access by %s on the concatenation (first %d items) <> (rest) of the list %s: %s" % (bn, sp, SH[sh], ORC)))
        hs.append(H("c16_length_concat_s%d_split%d" % (sh, sp), "rel", "quick" if (sh, sp) == (4, 2) else "thorough", "length of that concatenation == n"))
    return {
        "claim": "Through the runtime (Access, Apply, AccessLengthInternal, make_list via the corpus programs) a list of items i1..in reports length n, yields ik at index k, unit outside 0..n-1, and the value of the pair keyed by a symbol when it contains one, unit otherwise - never an error - for every mix of keyed and unkeyed items with distinct symbols, and the same for a concatenation of two such lists.",
        "functions": ["runtime/src/runtime/list.rs access_with_integer, access_with_symbol, index_list, index_concatenation_for, get_value_if_association", "runtime/src/runtime/access.rs, apply.rs, internals.rs", "traits/src/helpers/concatenation.rs iterate_concatenation_mut, iterate_rev_concatenation_mut"],
        "bounds": "lists of 0..3 items, symbols full u64 (distinct), index full i32; contract model of the data trait",
        "outside": "the two shipped stores' own list construction and lookup (SimpleGarnishData: address-modulo placement; BasicGarnishData: sorted associations + binary search) - on symbolic keys these did not finish (DESIGN.md probe 35); float indexes; lists longer than 3",
        "assumptions": ["(R) harnesses: the data object honours the contract: get_list_item answers Ok(None) outside the list, get_list_item_with_symbol finds the keyed pair; (D) harnesses store_*: none - they run the two real stores (BasicGarnishData with concrete keys 10/20/30 in all 6 insertion orders, SimpleGarnishData with symbolic keys)"],
        "harnesses": hs + STORE_LISTS,
    }


STORE_FRAMES = [H("store_basic_frames_%d" % k, "store", "thorough", "REAL BasicGarnishData (small blocks): %d register(s), frame x, %d register(s), frame y, %d register(s) (x, y symbolic); pop_frame returns y then x and restores the register depth of each call%s" % (k & 1, (k >> 1) & 1, (k >> 2) & 1, "; a call made from inside a call with an empty operand stack" if k & 3 == 0 else ""), cbmc_args=STORE_ARGS, timeout=1800, optional=True) for k in range(8)] + \
               [H("store_basic_values_update", "store", "thorough", "REAL BasicGarnishData: value stack push / current / update in place / pop", cbmc_args=STORE_ARGS, timeout=1800, optional=True),
                H("store_basic_values_plain", "store", "thorough", "REAL BasicGarnishData: value stack push / current / pop", cbmc_args=STORE_ARGS, timeout=1800, optional=True)]
STORE_LISTS = [H("store_basic_list_p%d%s" % (o, u), "store", "thorough", "REAL BasicGarnishData: list of two pairs keyed by symbols 20 and 10 inserted in order %d%s: length, index access in insertion order, lookup of a SYMBOLIC symbol (sorted associations + binary search)" % (o, " followed by an unkeyed item" if u else ""), cbmc_args=STORE_ARGS, timeout=1800, optional=True) for o in range(2) for u in ("", "_unkeyed")] + \
              [H("store_simple_list_%d" % k, "store", "thorough", "REAL SimpleGarnishData: a first list keyed by k0,k1, then a second list of %d items keyed by k2.. (all symbols symbolic u64): length, index access, lookup of a symbolic symbol in the second list (modulo placement + probing); no stale associations, no error, no panic on the empty list" % k, cbmc_args=STORE_ARGS, timeout=1800, optional=True) for k in range(3)] + \
              [H("store_simple_list_unkeyed", "store", "thorough", "REAL SimpleGarnishData: lookup in a list holding an unkeyed item is 'absent', not an error", cbmc_args=STORE_ARGS, timeout=1800, optional=True),
               H("store_basic_list_index_kf", "store", "thorough", "witness of the recorded finding: BasicGarnishData::get_list_item past the end is an Err", cbmc_args=STORE_ARGS, timeout=1800, optional=True)]
STORE_READBACK = [H("store_basic_readback_x2", "store", "quick", "same interleaving with every block starting at size 1 and growing multiplicatively (x2): 1 -> 2 -> 4 -> 8", cbmc_args=STORE_ARGS, timeout=1500), H("store_basic_readback", "store", "quick", "REAL BasicGarnishData with data block of initial size 2 (+4 per growth) and 2-cell instruction / jump blocks: interleaved adds to all three tables across several growth steps; every value reads back with the same type and content", cbmc_args=STORE_ARGS)]


def _c15():
    return {
        "claim": "On the real BasicGarnishData with small blocks, values added through the data interface read back unchanged at the returned addresses after further adds to the data, instruction and jump tables force several heap reallocations; register, value and frame stacks survive pushes in between.",
        "functions": ["data/src/basic/internal.rs push_to_block, reallocate_heap, get_from_*_ensure_index", "data/src/basic/storage.rs StorageBlock::next_size", "data/src/basic/basic.rs push_to_*_block", "data/src/basic/garnish/garnish_impl.rs getters, push_frame/pop_frame, push/pop_register, value stack"],
        "bounds": "one concrete interleaving of 11 adds (5 data cells, 3 instructions, 3 jump entries) with symbolic payloads; initial sizes 2/2/2, additive growth 4; a second scenario for the register / value / frame chains",
        "outside": "other interleavings and growth policies (symbolic block sizes or a symbolically chosen table did not finish: DESIGN.md probes 29, 34); multiplicative growth; SimpleGarnishData's intern table (hash-collision reasoning: not applicable)",
        "assumptions": ["cfg(kani) hook exporting StorageSettings (no behaviour change)"],
        "harnesses": STORE_READBACK + STORE_FRAMES,
    }


def _c17():
    hs = disp_harnesses(["apply"], tags=["external"]) + disp_harnesses(["empty_apply"], tags=["external"])
    return {
        "claim": "An identifier is looked up in the current input value first; only if that fails is the host's resolve called, exactly once with that symbol, unit when declined; applying an external calls the host's apply exactly once with the external's number and the argument, unit when declined; a callback's value is used for exactly that occurrence. Decided per corpus program against the reference evaluator's predicted call log, and for the External arm of apply in one-step harnesses.",
        "functions": ["runtime/src/runtime/resolve.rs resolve", "runtime/src/runtime/apply.rs apply_internal (External arm)", "runtime/src/runtime/list.rs get_access_addr", "compiler/src/build/build.rs Identifier / Property / PrefixApply / SuffixApply / InfixApply arms"],
        "bounds": "one-step: external left operand, right operand of symbolic type",
        "outside": "the two shipped stores' own resolve/apply plumbing (set_resolver, BasicDataCompanion)",
        "assumptions": ["contract model of the data trait; scripted host"],
        "harnesses": hs,
    }


def _c07():
    c09 = _c09()["harnesses"]
    ii = [dict(h) for h in c09 if h["tier"] == "quick" and "_kf_" not in h["name"] and ("_ii_" in h["name"] or "_i_unary" in h["name"])]
    fl = [dict(h, tier="thorough") for h in c09 if h["tier"] == "quick" and "_kf_" not in h["name"] and h["group"] == "c09" and not ("_ii_" in h["name"] or "_i_unary" in h["name"])]
    hs = ii + fl
    hs += retier(num_op_harnesses(), "thorough")
    qa = "pair list char_list byte_list range concatenation".split()
    qc = "char_list range list number".split()
    hs += disp_harnesses(["access", "apply"], tags=qa) + disp_harnesses(["apply_type"], tags=qc)
    hs += disp_harnesses(["access", "apply"], tier="thorough", tags=[t for t in TAGS if t not in qa]) + disp_harnesses(["apply_type"], tier="thorough", tags=[t for t in TAGS if t not in qc])
    hs += disp_harnesses(DISP_UN, tier="thorough")
    hs += retier(step_harnesses(), "thorough") + retier(truth_harnesses(), "thorough")
    hs += [h for h in STORE_LISTS if "_kf" not in h["name"]] + STORE_FRAMES + STORE_READBACK
    hs += [H("c07_cast_slice_to_list", "rel", "thorough", "ApplyType: slice of a 3-item list cast to List; the slice's range ends are two arbitrary i32 (forward, backwards, empty, negative, past the end): no panic (written after seeded C07-m3: an unchecked usize subtraction of the range ends)"),
           H("c07_cast_slice_to_char_list", "rel", "thorough", "same slice cast to CharList"),
           H("c07_cast_range_to_list", "rel", "thorough", "ApplyType: a range with arbitrary i32 ends cast to List")]
    return {
        "claim": "No reachable panic, arithmetic overflow, out-of-bounds index, failed unwrap or unreachable!/unimplemented! in one step of any instruction from an arbitrary valid state, nor in any SimpleNumber operation on any operands: only Kani's own checks (and untagged assertions) count for this property.",
        "functions": ["runtime/src/execute.rs", "runtime/src/runtime/*.rs", "data/src/data/number.rs (all GarnishNumber methods, From<SimpleNumber> for usize)", "data/src/runtime.rs SimpleDataFactory conversions", "traits/src/helpers/concatenation.rs"],
        "bounds": "one instruction step; " + STATE_NOTE + "; integers full width (index operands negative, huge, MIN, MAX); lists 0..2; capacity 10 cells; number kernels at full width (see C09)",
        "outside": "panics inside the two shipped stores' own methods (raw heap slicing, list construction) except where a store-level harness is listed; float index operands; nesting deeper than one level",
        "assumptions": [STATE_NOTE],
        "harnesses": hs,
    }



# ------------------------------------------------------------------------------------------- template families

QUICK_TEMPLATES = {
    "C01": "sub_chain value_sub sub_group if_else_f chain3_default list_pairs access_key subexpr apply side_effect and_eval ident_arith".split(),
    "C05": "sub_chain if_else_t chain3_default and_eval or_eval list_nested apply apply_nested subexpr side_effect".split(),
    "C06": "if_else_f chain3_default chain_nodefault_miss cond_cmp and_eval apply apply_cond side_effect_value".split(),
    "C10": "and_skip and_eval or_skip or_eval and_and cond_arms cond_arms_f chain3_default if_unit unless_f".split(),
    "C17": "ident ident_arith ident_two ident_in_input side_effect_host apply_host cond_arms and_skip".split(),
    "C20": None,
    "C18": "v_sub_chain_tight v_sub_chain_annotation v_sub_chain_comment v_sub_chain_parens v_sub_chain_sidefx v_sub_chain_sidefx_lead v_list_pairs_parens v_list3_trailing v_if_else_tight v_apply_annotation v_subexpr_trailing v_subexpr_comment v_list3_lines_trailing v_list3_line_comments v_sub_chain_lines_lead_trailing vp_sub_mul vp_pair_pair vp_and_or".split(),
}


def read_templates(tsv):
    rows = []
    try:
        for line in open(tsv):
            parts = line.rstrip("\n").split("\t")
            if len(parts) >= 4:
                rows.append({"harness": parts[0], "family": parts[1], "name": parts[2], "source": parts[3], "original": parts[4] if len(parts) > 4 else "", "input": parts[5] if len(parts) > 5 else "the list (:a = x, :b = y)"})
    except OSError:
        pass
    return rows


def tmpl_harnesses(rows, family, prop, what):
    quick = QUICK_TEMPLATES.get(prop)
    out = []
    for r in rows:
        if r["family"] != family:
            continue
        plain = r["harness"] == "%s_%s" % (family, r["name"])  # the unit / list input variants are thorough-tier
        tier = "quick" if ((quick is None or r["name"] in quick) and (plain or (prop in ("C17", "C10") and r["harness"].endswith("_inlist")))) else "thorough"
        desc = "%s: source `%s`%s, input value %s — %s" % (r["name"], r["source"], (" (variant of `%s`)" % r["original"]) if r["original"] else "", r["input"], what)
        h = H(r["harness"], "tmpl", tier, desc, cbmc_args=FIELD_SENS, timeout=TMPL_TIMEOUT, jobs_weight=4 if family == "layout" else 1.3, shard_size=6)
        if family == "layout":
            h["all_tags"] = True
        out.append(h)
    return out


PROG_NOTE = "program = a template of /verif/templates.txt; its parse tree is the output of the real lex + parse of the current /repo tree (run natively and concretely by /verif/gen at every check); real build into the contract model BoundedData, real execute_current_instruction loop; every number literal (full i32; {-4..4, MIN, MAX, 31, 32} when the program contains * / // % ** << >>), the input value's payloads (its kind - unit / a number / the list (:a = x, :b = y) - is concrete per harness) and all host answers (accept/decline, pushed value) are symbolic; all control-flow paths are inside the one query (cursor case split over the static control-flow graph)"
PROG_FUNCS = ["compiler/src/build/build.rs build, handle_parse_node and every handle_*", "runtime/src/execute.rs execute_current_instruction", "runtime/src/runtime/*.rs as reached by the program", "data/src/data/number.rs SimpleNumber"]
PROG_OUTSIDE = "programs outside the corpus; the lexer and the parser on any other input (they run concretely on the corpus only); the two shipped stores as build/run target (whole programs on them are out of CBMC's reach: DESIGN.md probe 14); float literals; text literals; more than 3 reapply iterations"


def _c01(rows):
    return {
        "claim": "For every program of the corpus, building the real parser's tree and executing to completion leaves a current value structurally equal to the value the independent reference evaluator (harness/src/refmodel.rs) assigns to that tree, for every literal value, input value and host answer.",
        "functions": PROG_FUNCS, "bounds": PROG_NOTE + "; <= 60 execution steps (concrete budget from the emitted instruction count)", "outside": PROG_OUTSIDE,
        "assumptions": ["the reference evaluator is the meaning of the corpus programs (validated natively against the unchanged tree by harness/src/bin/selftest.rs)", "contract model of the data trait"],
        "harnesses": tmpl_harnesses(rows, "prog", "C01", "result == reference evaluator"),
    }


def _c05(rows):
    return {
        "claim": "After build of every corpus program (alone, and as a second program behind existing instructions / jump entries / data): Put/Resolve operands name existing data of the expected kind, every jump operand and expression value names one of the build's own jump entries, every such entry points at one of the build's own instructions (no unpatched 0 placeholder survives: the second-program variant has non-zero bases), the stream ends in EndExpression/JumpTo, execution never leaves the static control-flow graph nor ends other than by the final EndExpression, and there is one metadata record per instruction naming an existing node.",
        "functions": PROG_FUNCS[:1], "bounds": PROG_NOTE, "outside": PROG_OUTSIDE,
        "assumptions": ["contract model of the data trait"],
        "harnesses": tmpl_harnesses(rows, "prog", "C05", "well-formedness of the emitted stream") + tmpl_harnesses(rows, "prog2", "C05", "well-formedness relative to non-zero bases"),
    }


def _c20(rows):
    return {
        "claim": "A corpus program built into a data object that already holds another program (instructions, jump entries, constants) leaves that program's pieces unchanged, refers only to its own pieces, and computes from its reported entry point the value the reference evaluator assigns to it (= what it computes alone).",
        "functions": PROG_FUNCS, "bounds": PROG_NOTE + "; the earlier program is a fixed 6-instruction residue with 3 jump entries and 2 constants", "outside": PROG_OUTSIDE + "; SimpleGarnishData's interning collisions",
        "assumptions": ["contract model of the data trait"],
        "harnesses": tmpl_harnesses(rows, "prog2", "C20", "second program in a shared data object"),
    }


def _c18(rows):
    return {
        "claim": "For each (original, layout variant) pair of the corpus — both parsed by the real parser — the variant's build + execution gives a value structurally equal to the reference value of the ORIGINAL's tree and the same host-call sequence, for every literal/input value and host answer.",
        "functions": PROG_FUNCS + ["compiler/src/lex/lexer.rs, compiler/src/parse/parser.rs: executed concretely on both texts by /verif/gen"], "bounds": PROG_NOTE, "outside": PROG_OUTSIDE + "; tree-level equality of parse results for token sequences outside the corpus",
        "assumptions": ["contract model of the data trait"],
        "harnesses": tmpl_harnesses(rows, "layout", "C18", "variant == original"),
    }


# The quick tier is "the check you would run on every change": it has to finish in well under 15 minutes of wall
# time on the 16-core sandbox, cold build included. Membership is by name, chosen from idle-machine measurements
# (tools/harvest_times.py -> timings.json): every member finished in < 250 s and the members of one property sum to
# < ~2500 CPU-seconds. Everything else a property owns runs in the thorough tier.
QUICK_SETS = {
    "C01": "prog_value_sub prog_if_unit prog_side_effect prog_or_skip prog_and_skip prog_ident prog_and_eval_inlist prog_cond_arms_inlist prog_if_else_t prog_ident_arith_inlist".split(),
    "C05": "prog_value_sub prog_if_unit prog_and_skip prog_side_effect prog_if_else_t prog2_add prog2_value_sub prog2_if_else_t prog2_and_tis".split(),
    "C06": ("step_put step_push_value step_update_value step_end_side_effect step_jump_to step_reapply step_end_expression step_make_pair step_type_of "
            "c08_op_add c08_op_divide c10_truth_jump_if_true c10_truth_and disp_access_pair disp_access_expression disp_apply_pair disp_apply_expression "
            "prog_if_else_t prog_if_unit prog_chain_nodefault_miss "
            "c11_shape_equal_list2_list1 c11_shape_equal_list3_unit_mid c11_shape_equal_list_pair_unit c11_shape_not_equal_nested_pairs").split(),
    "C07": ("c09_ii_plus c09_ii_subtract c09_ii_multiply c09_ii_divide c09_ii_integer_divide c09_ii_remainder_unit_conditions c09_ii_remainder_small_divisor "
            "c09_ii_power_small_base c09_ii_power_negative_exponent c09_i_unary c09_ii_bitwise c09_ii_shift_left c09_ii_shift_right "
            "disp_access_pair disp_access_byte_list disp_access_range disp_apply_pair disp_apply_char_list store_basic_readback_x2 store_basic_readback "
            "c07_cast_slice_to_list c07_cast_slice_to_char_list c07_cast_range_to_list").split(),
    "C08": ("c08_op_add c08_op_divide c08_op_subtract c08_op_opposite c08_op_bitwise_shift_left c08_op_power step_make_pair step_make_range step_make_exclusive_range step_type_equal "
            "disp_access_symbol disp_access_expression disp_access_symbol_list disp_access_byte_list disp_access_pair disp_access_number disp_access_range "
            "disp_apply_char_list disp_apply_expression disp_apply_pair disp_apply_symbol disp_apply_number").split(),
    "C10": ("c10_truth_jump_if_true c10_truth_jump_if_false c10_truth_and c10_truth_or c10_truth_not c10_truth_tis c10_truth_xor "
            "prog_and_skip prog_and_skip_inlist prog_or_skip prog_or_skip_inlist prog_and_eval_inlist prog_if_unit prog_cond_arms_inlist").split(),
    "C17": "disp_apply_external disp_empty_apply_external prog_ident prog_ident_inlist prog_ident_absent_inlist prog_ident_two_inlist prog_ident_arith_inlist prog_side_effect_host_inlist prog_and_skip prog_cond_arms_inlist".split(),
    # (the two recorded C18 findings' witness pairs take > 13 min to FAIL: thorough tier; the quick tier replays
    # their committed counterexamples natively)
    "C18": "layout_v_if_else_tight layout_v_list3_line_comments layout_v_list3_lines_trailing layout_v_list3_trailing".split(),
    "C20": "prog2_add prog2_value_sub prog2_if_else_t prog2_and_tis".split(),
}

# harnesses that did not finish in 900 s on an idle machine (24 Sep measurements)
SLOW = set("disp_access_concatenation disp_apply_list".split())


def _kf_witnesses():
    import json, os
    try:
        kf = json.load(open(os.path.join(os.path.dirname(os.path.abspath(__file__)), "known_findings.json")))
    except Exception:
        return {}
    return {w: f["property"] for f in kf.get("findings", []) for w in f.get("witness_harnesses", [])}


_KF_WITNESS = _kf_witnesses()


def build_properties(tsv):
    rows = read_templates(tsv)
    props = dict(PROPERTIES_STATIC)
    props["C01"] = _c01(rows)
    props["C05"] = _c05(rows)
    props["C18"] = _c18(rows)
    props["C20"] = _c20(rows)
    for pid, extra_what in (("C06", "stack depths on every path"), ("C10", "only what must be evaluated is evaluated: host-call log and result"), ("C17", "host-call log: resolve/apply called exactly as predicted")):
        p = dict(props[pid])
        p["harnesses"] = list(p["harnesses"]) + tmpl_harnesses(rows, "prog", pid, extra_what)
        p["bounds"] = p.get("bounds", "") + " || program-level: " + PROG_NOTE
        props[pid] = p
    out = {}
    for k, v in props.items():
        seen = {}
        for h in v["harnesses"]:
            if h["name"] in seen:
                if h["tier"] == "quick":
                    seen[h["name"]]["tier"] = "quick"
                continue
            seen[h["name"]] = dict(h)
        if seen:
            v = dict(v)
            # a recorded finding's witness harness isolates the finding's input class; it belongs to the finding's own
            # property only (for the others that class is outside the main harnesses, as for every recorded finding)
            v["harnesses"] = [h for h in seen.values() if _KF_WITNESS.get(h["name"], k) == k]
            qs = QUICK_SETS.get(k)
            for h in v["harnesses"]:
                if qs is not None:
                    h["tier"] = "quick" if h["name"] in qs else "thorough"
                if h["tier"] == "thorough":
                    # thorough-only harnesses are explored under a per-harness budget; one that does not finish is
                    # reported by name as not decided (never as discharged) and does not turn the run into an alarm
                    h["optional"] = True
                if h["name"] in SLOW:
                    # measured not to finish inside the per-harness budget on an idle machine: kept, run in the
                    # thorough tier, reported by name when inconclusive, never counted as discharged
                    h["tier"], h["optional"], h["timeout"] = "thorough", True, max(h.get("timeout") or 0, 2400)
            out[k] = v
    return out


PROPERTIES_STATIC = {
    "C06": _c06(),
    "C07": _c07(),
    "C08": _c08(),
    "C09": _c09(),
    "C10": _c10(),
    "C11": _c11(),
    "C12": _c12(),
    "C15": _c15(),
    "C16": _c16(),
    "C17": _c17(),
}

PROPERTIES = PROPERTIES_STATIC

GENERATORS = {}

# properties that also run the MIR -> SMT engine (/verif/smt/run.py): number kernels of data/src/data/number.rs
SMT = {
    "C09": "every arithmetic / bitwise kernel of SimpleNumber per operand-kind arm: exact or None, at full width (integer remainder and division through the division relation; float + and - over all finite operands)",
    "C07": "no path of any number kernel, PartialEq or PartialOrd reaches a panic, for any operand including non-finite floats",
    "C11": "PartialEq of SimpleNumber = numeric equality of the exactly promoted operands, all four kind arms, all bit patterns",
    "C12": "PartialOrd of SimpleNumber = natural numeric order of the exactly promoted operands, None iff NaN, all four kind arms",
}
